"""
C13, .mapping files (vermouth.map_parser.MappingDirector, as used by parse_mapping_file / read_mapping_file).

mapping-model    an abstract .mapping file (1-3 [ block ] / [ modification ] mappings, [ macros ] sections between them;
                 per mapping: [ from ] / [ to ], [ from blocks ] / [ to blocks ] with shorthand (NAME, NAME#resid, !NAME#resid)
                 and longhand (ID {attrs}, !ID {attrs}) specifications, [ from nodes ] / [ to nodes ] with attributes,
                 [ from edges ] / [ to edges ] with attributes, [ mapping ] lines with optional integer weights,
                 [ reference atoms ]) is serialised with random legal layout (sections interleaved and repeated, identifiers
                 written or left out where the docstrings allow it) and parsed against force fields built from the same
                 model.  The mappings are compared one by one, in file order, with the expectation computed from the model.
mapping-faults   one fault injected into a valid file; parsing must raise.
mapping-float-weights  the same model with float weights ("weight := float | int" in the [ mapping ] docstring).
mapping-doc-example    the .mapping example of doc/source/file_formats.rst.

Reference: docstrings of MappingDirector._blocks/_nodes/_edges/_mapping/_reference_atoms/_resolve_atom_spec, of Mapping
(only mapped nodes are kept in block_from), doc/source/file_formats.rst "File structure (.mapping)", the shipped files.
Nodes are identified by (resid, atomname) in the comparison, never by the node keys the builder happens to assign.
"""
import json

from hypothesis import strategies as st

from pbt.core import Part, Outcome, Violation

from vermouth.forcefield import ForceField
from vermouth.molecule import Block, Link
from vermouth.map_parser import MappingDirector

FROM_POOL = ['N', 'HN', 'CA', 'HA', 'CB', 'C', 'O', 'OXT']
TO_POOL = ['BB', 'SC1', 'SC2', 'SC3']
EXTRA_NODE_NAMES = ['X1', 'X2', 'H9', 'VS']
BLOCK_NAMES = ['ALA', 'GLY', 'LYS']
MOD_NAMES = ['C-ter', 'N-ter']
NODE_ATTRS = [None, None, {'element': 'H'}, {'atype': 'P5', 'charge': -1}, {'flag': True}, {'resname': 'OVR', 'element': 'X'}]
EDGE_ATTRS = [None, None, None, {'order': 2}, {'kind': 'x'}]
ID_ATTRS = [None, None, {'chain': 'A'}, {'insertion_code': 'B'}]
MACRO_VALUES = ['aa_ff', 'cg_ff', 'BB', 'CA', 'N', 'SC1', '2', 'X1']
FFS = {'from': 'aa_ff', 'to': 'cg_ff'}


# ---------------------------------------------------------------------------
# strategy: raw integers, normalised by assemble() into an explicit description

def _side_raw():
    ident = st.fixed_dictionaries({'res': st.integers(0, 5), 'fetch': st.sampled_from([True, True, False]),
                                   'style': st.sampled_from(['short', 'short', 'long']), 'bare': st.booleans(),
                                   'join': st.booleans(), 'attrs': st.sampled_from(ID_ATTRS)})
    node = st.fixed_dictionaries({'id': st.integers(0, 5), 'name': st.integers(0, 3), 'attrs': st.sampled_from(NODE_ATTRS)})
    edge = st.fixed_dictionaries({'a': st.integers(0, 40), 'b': st.integers(0, 40), 'attrs': st.sampled_from(EDGE_ATTRS)})
    return st.fixed_dictionaries({'ids': st.lists(ident, min_size=1, max_size=3), 'nodes': st.lists(node, max_size=3),
                                  'edges': st.lists(edge, max_size=3), 'write_ff': st.booleans()})


def _mapping_raw(float_weights):
    weight = st.sampled_from(['0.5', '2.0', '0.25', '1e-1', '1.5']) if float_weights else st.sampled_from(['0', '1', '2', '3'])
    line = st.fixed_dictionaries({'f': st.integers(0, 40), 't': st.integers(0, 40),
                                  'w': st.one_of(st.none(), weight) if not float_weights else weight})
    return st.fixed_dictionaries({
        'type': st.sampled_from(['block', 'block', 'modification']),
        'from': _side_raw(), 'to': _side_raw(),
        'map': st.lists(line, min_size=1, max_size=7),
        'refs': st.lists(st.fixed_dictionaries({'t': st.integers(0, 40), 'pick': st.integers(0, 40)}), max_size=2),
        'merge1': st.lists(st.booleans(), min_size=14, max_size=14),
        'merge2': st.lists(st.integers(0, 2), min_size=16, max_size=16),
        'macros': st.lists(st.tuples(st.sampled_from(['m1', 'm2', 'long_macro', 'm1-x', 'aa.bb', 'm1']), st.sampled_from(MACRO_VALUES)).map(list),
                           max_size=2, unique_by=lambda t: t[0]),
    })


def _universe():
    def blocks(pool, names, lo, hi):
        return st.fixed_dictionaries({n: st.fixed_dictionaries({
            'atoms': st.lists(st.sampled_from(pool), min_size=lo, max_size=hi, unique=True),
            'edges': st.integers(0, 255)}) for n in names})
    return st.fixed_dictionaries({
        'aa_ff': st.fixed_dictionaries({'blocks': blocks(FROM_POOL, BLOCK_NAMES, 2, 5), 'mods': blocks(FROM_POOL, MOD_NAMES, 1, 4)}),
        'cg_ff': st.fixed_dictionaries({'blocks': blocks(TO_POOL, BLOCK_NAMES, 1, 3), 'mods': blocks(TO_POOL, MOD_NAMES, 1, 2)}),
    })


def file_strategy(tier, float_weights=False):
    return st.fixed_dictionaries({
        'universe': _universe(),
        'mappings': st.lists(_mapping_raw(float_weights), min_size=1, max_size=3),
        'layout': st.integers(0, 2 ** 30),
    }).map(assemble)


def block_edges(atoms, bits):
    """Chain edges, some of them left out, plus a closing edge: decided by the bits of one integer."""
    edges = []
    for i in range(len(atoms) - 1):
        if not (bits >> i) & 1 or i == 0:
            edges.append([atoms[i], atoms[i + 1]])
    if len(atoms) > 2 and (bits >> 7) & 1:
        edges.append([atoms[0], atoms[-1]])
    return edges


def assemble(raw):
    """Normalise the raw draw into an explicit, self-contained description of the file."""
    universe = {}
    for ffname, content in raw['universe'].items():
        universe[ffname] = {kind: {name: {'atoms': b['atoms'], 'edges': block_edges(b['atoms'], b['edges'])}
                                   for name, b in content[kind].items()} for kind in ('blocks', 'mods')}
    mappings = []
    for rm in raw['mappings']:
        kind = 'blocks' if rm['type'] == 'block' else 'mods'
        names = BLOCK_NAMES if rm['type'] == 'block' else MOD_NAMES
        sides = {}
        for direction in ('from', 'to'):
            rs = rm[direction]
            ffname = FFS[direction]
            ids, nfetched = [], 0
            for k, rid in enumerate(rs['ids']):
                resname = names[rid['res'] % len(names)]
                if rid['fetch']:
                    nfetched += 1
                    resid = nfetched
                else:
                    resid = 10 + k
                if rid['style'] == 'short':
                    # a bare name carries no residue number: only the first fetched block may be written that way
                    bare = rid['bare'] and rid['fetch'] and resid == 1
                    ident = resname if bare else '%s#%d' % (resname, resid)
                    attrs = None
                else:
                    bare = False
                    ident = 'B%d' % k
                    # identifier attributes must match the nodes of a fetched block, so only no-fetch identifiers get extra ones
                    attrs = rid['attrs'] if not rid['fetch'] else None
                ids.append({'ident': ident, 'fetch': rid['fetch'], 'resname': resname, 'resid': resid, 'style': rid['style'],
                            'bare': bare, 'attrs': attrs,
                            'atoms': list(universe[ffname][kind][resname]['atoms']) if rid['fetch'] else [], 'hidden': []})
            # identifiers must be unique per direction
            seen = set()
            ids = [i for i in ids if not (i['ident'] in seen or seen.add(i['ident']))]
            # renumber the fetched blocks after the removal of duplicates
            nfetched = 0
            for i in ids:
                if i['fetch']:
                    nfetched += 1
                    if i['resid'] != nfetched:
                        i['resid'] = nfetched
                        if i['style'] == 'short':
                            i['ident'] = '%s#%d' % (i['resname'], nfetched)
                            i['bare'] = False
            # several shorthand identifiers on one line: a bare name continues the numbering of the identifier before it on
            # that line ("!LIG#3 !TAIL" makes TAIL residue 4).  Only blocks that are not fetched are free in their number.
            raw_join = {}
            for k, rid in enumerate(rs['ids']):
                resname = names[rid['res'] % len(names)]
                raw_join.setdefault(resname, rid.get('join', False))
            for k in range(1, len(ids)):
                cur, prev = ids[k], ids[k - 1]
                # both not fetched: their numbers (10 + position) are consecutive already and collide with no fetched block
                if cur['style'] == 'short' and prev['style'] == 'short' and not cur['fetch'] and not prev['fetch'] \
                        and cur['resid'] == prev['resid'] + 1 and raw_join.get(cur['resname']) \
                        and cur['resname'] not in [i['ident'] for i in ids]:
                    cur['resid'] = prev['resid'] + 1
                    cur['ident'] = cur['resname']
                    cur['bare'] = True
                    cur['join'] = True
            nodes = []
            for rn in rs['nodes']:
                idx = rn['id'] % len(ids)
                name = EXTRA_NODE_NAMES[rn['name']]
                if name in ids[idx]['atoms'] or name in ids[idx]['hidden']:
                    continue
                if rn['attrs'] and 'resname' in rn['attrs']:
                    # "Atom attributes take precedence" over those of the identifier: such a node can no longer be addressed
                    # through its identifier, so nothing refers to it afterwards
                    ids[idx]['hidden'].append(name)
                else:
                    ids[idx]['atoms'].append(name)
                nodes.append({'id': idx, 'name': name, 'attrs': rn['attrs']})
            atoms = [[i, a] for i, ident in enumerate(ids) for a in ident['atoms']]
            edges = []
            seen = set()
            for re_ in rs['edges']:
                if len(atoms) < 2:
                    break
                a, b = atoms[re_['a'] % len(atoms)], atoms[re_['b'] % len(atoms)]
                key = frozenset((tuple(a), tuple(b)))
                if a == b or key in seen:
                    continue
                seen.add(key)
                edges.append({'a': a, 'b': b, 'attrs': re_['attrs']})
            # the force field is named when a block has to be fetched from it, otherwise it is optional
            needs_ff = any(i['fetch'] for i in ids)
            sides[direction] = {'ff': ffname if (needs_ff or rs['write_ff']) else None, 'ids': ids, 'nodes': nodes,
                                'edges': edges, 'atoms': atoms}
        lines, seen = [], set()
        fa, ta = sides['from']['atoms'], sides['to']['atoms']
        if fa and ta:
            for rl in rm['map']:
                f, t = fa[rl['f'] % len(fa)], ta[rl['t'] % len(ta)]
                key = (tuple(f), tuple(t))
                if key in seen:
                    continue
                seen.add(key)
                lines.append({'f': f, 't': t, 'w': rl['w']})
        refs, seen = [], set()
        mapped_to = []
        for ln in lines:
            if ln['t'] not in mapped_to:
                mapped_to.append(ln['t'])
        for rr in rm['refs']:
            if not mapped_to:
                break
            t = mapped_to[rr['t'] % len(mapped_to)]
            if tuple(t) in seen:
                continue
            seen.add(tuple(t))
            sources = [ln['f'] for ln in lines if ln['t'] == t]
            refs.append({'t': t, 'f': sources[rr['pick'] % len(sources)]})
        for side in sides.values():
            del side['atoms']
        mappings.append({'type': rm['type'], 'from': sides['from'], 'to': sides['to'], 'map': lines, 'refs': refs,
                         'merge1': rm['merge1'], 'merge2': rm['merge2'], 'macros': rm['macros']})
    return {'universe': universe, 'mappings': mappings, 'layout': raw['layout']}


# ---------------------------------------------------------------------------
# the force fields

def build_force_fields(case):
    ffs = {}
    for ffname, content in case['universe'].items():
        ff = ForceField(name=ffname)
        for name, desc in content['blocks'].items():
            block = Block(name=name, force_field=ff)
            block.nrexcl = 1
            for a in desc['atoms']:
                block.add_node(a, atomname=a, resname=name, resid=1, atype='t' + a)
            block.add_edges_from(desc['edges'])
            ff.blocks[name] = block
        for name, desc in content['mods'].items():
            mod = Link(name=name, force_field=ff)
            for i, a in enumerate(desc['atoms']):
                mod.add_node(a, atomname=a, PTM_atom=bool(i % 2), element=a[0])
            mod.add_edges_from(desc['edges'])
            ff.modifications[name] = mod
        ffs[ffname] = ff
    return ffs


def block_node_attrs(kind, resname, atom, index):
    if kind == 'block':
        return {'atomname': atom, 'resname': resname, 'atype': 't' + atom}
    return {'atomname': atom, 'PTM_atom': bool(index % 2), 'element': atom[0]}


# ---------------------------------------------------------------------------
# serialisation

class Layout:
    def __init__(self, seed):
        self.state = seed * 2654435761 % (2 ** 32) or 1

    def pick(self, n):
        self.state = (self.state * 1103515245 + 12345) % (2 ** 31)
        return (self.state >> 8) % n

    def sep(self):
        return [' ', '  ', '\t', '    '][self.pick(4)]


def _merge(streams, choices):
    """Interleave the streams keeping each stream's own order; `choices` say which stream goes next."""
    streams = [list(s) for s in streams]
    out = []
    k = 0
    while any(streams):
        want = choices[k % len(choices)] if choices else 0
        k += 1
        want = int(want) % len(streams)
        # run of up to two items from the chosen stream (longer section bodies)
        for offset in range(len(streams)):
            s = streams[(want + offset) % len(streams)]
            if s:
                out.append(s.pop(0))
                if s and k % 2:
                    out.append(s.pop(0))
                break
    return out


def mapping_items(m):
    """The logical lines of one mapping, in a legal order: (section, payload)."""
    first = []
    for direction in ('from', 'to'):
        side = m[direction]
        stream = []
        if side['ff'] is not None:
            stream.append((direction, {'ff': side['ff'], 'dir': direction}))
        for k, ident in enumerate(side['ids']):
            stream.append((direction + ' blocks', {'id': k, 'dir': direction}))
        for k, node in enumerate(side['nodes']):
            stream.append((direction + ' nodes', {'node': k, 'dir': direction}))
        first.append(stream)
    second = [[('from edges', {'edge': k, 'dir': 'from'}) for k in range(len(m['from']['edges']))],
              [('to edges', {'edge': k, 'dir': 'to'}) for k in range(len(m['to']['edges']))],
              [('mapping', {'line': k}) for k in range(len(m['map']))] + [('reference atoms', {'ref': k}) for k in range(len(m['refs']))]]
    return _merge(first, m['merge1']) + _merge(second, m['merge2'])


def serialise(case):
    lay = Layout(case['layout'])
    out = []
    macros = {}      # value -> name, for the macros defined so far

    def noise():
        k = lay.pick(10)
        if k == 0:
            out.append({'text': '', 'kind': 'blank'})
        elif k == 1:
            out.append({'text': ['; comment', '  ; [ mapping ]', ';CA BB'][lay.pick(3)], 'kind': 'comment'})

    def header(name, **info):
        text = ['[ %s ]', '[%s]', '[  %s  ]', '  [ %s ]', '[ %s ] ; note', '[%s ]'][lay.pick(6)] % name
        out.append(dict(info, text=text, kind='header', sec=name))
        noise()

    def data(tokens, **info):
        text = ['', ' ', '\t', '   '][lay.pick(4)] + lay.sep().join(tokens)
        if lay.pick(4) == 0:
            text += [' ; trailing', ';c', '   ; CA BB 2'][lay.pick(3)]
        out.append(dict(info, text=text, kind='data'))
        noise()

    def mac(token):
        if token in macros and lay.pick(2) == 0:
            return '$' + macros[token]
        return token

    def jd(obj):
        return json.dumps(obj) if lay.pick(2) else json.dumps(obj, separators=(',', ':'))

    for midx, m in enumerate(case['mappings']):
        if m['macros']:
            header('macros', mapping=midx, top=True)
            for name, value in m['macros']:
                data([name, value], mapping=midx, sec='macros')
                macros = {v: n for v, n in macros.items() if n != name}
                macros[value] = name
        header(m['type'], mapping=midx, top=True)
        known = {'from': [], 'to': []}        # identifiers declared so far
        previous = {'from': None, 'to': None}  # identifier of the previous reference in this section body

        def ref(direction, atom, m=m, known=known, previous=previous):
            idx, name = atom
            ident = m[direction]['ids'][idx]['ident']
            can_omit = known[direction] == [ident] or previous[direction] == ident
            previous[direction] = ident
            if can_omit and lay.pick(3) != 0:
                return mac(name)
            return ident + ':' + mac(name)

        current = None
        for sec, payload in mapping_items(m):
            if sec != current or lay.pick(9) == 0:
                header(sec, mapping=midx)
                current = sec
                previous['from'] = previous['to'] = None
            info = dict(mapping=midx, sec=sec)
            if sec in ('from', 'to'):
                data([mac(payload['ff'])], role='ff', **info)
            elif sec.endswith('blocks'):
                direction = payload['dir']
                ident = m[direction]['ids'][payload['id']]
                if ident.get('join'):
                    continue    # already written on the line of the identifier before it
                prefix = '' if ident['fetch'] else '!'
                if ident['style'] == 'short':
                    tokens = [prefix + ident['ident']]
                    follow = payload['id'] + 1
                    while follow < len(m[direction]['ids']) and m[direction]['ids'][follow].get('join'):
                        tokens.append('!' + m[direction]['ids'][follow]['ident'])
                        known[direction].append(m[direction]['ids'][follow]['ident'])
                        follow += 1
                    data(tokens, role='block-short', **info)
                else:
                    attrs = {'resname': ident['resname'], 'resid': ident['resid']}
                    if lay.pick(2):
                        attrs = {'resid': ident['resid'], 'resname': ident['resname']}
                    attrs.update(ident['attrs'] or {})
                    if lay.pick(3) == 0:
                        data([prefix + ident['ident'] + jd(attrs)], role='block-long', **info)
                    else:
                        data([prefix + ident['ident'], jd(attrs)], role='block-long', **info)
                known[direction].append(ident['ident'])
            elif sec.endswith('nodes'):
                direction = payload['dir']
                node = m[direction]['nodes'][payload['node']]
                toks = [ref(direction, [node['id'], node['name']])]
                if node['attrs'] is not None or lay.pick(4) == 0:
                    toks.append(jd(node['attrs'] or {}))
                data(toks, role='node', dir=direction, **info)
            elif sec.endswith('edges'):
                direction = payload['dir']
                edge = m[direction]['edges'][payload['edge']]
                toks = [ref(direction, edge['a']), ref(direction, edge['b'])]
                if edge['attrs'] is not None:
                    toks.append(jd(edge['attrs']))
                data(toks, role='edge', dir=direction, **info)
            elif sec == 'mapping':
                line = m['map'][payload['line']]
                toks = [ref('from', line['f']), ref('to', line['t'])]
                if line['w'] is not None:
                    toks.append(mac(line['w']))
                data(toks, role='map', **info)
            else:
                r = m['refs'][payload['ref']]
                data([ref('to', r['t']), ref('from', r['f'])], role='ref', **info)
    return out


def text_of(records):
    return '\n'.join(r['text'] for r in records) + '\n'


# ---------------------------------------------------------------------------
# expectation

def expected(case):
    out = []
    for m in case['mappings']:
        sides = {}
        for direction in ('from', 'to'):
            side = m[direction]
            ffname = FFS[direction]
            kind = 'blocks' if m['type'] == 'block' else 'mods'
            nodes = []   # (desc, attrs, is_extra)
            edges = {}   # frozenset(desc pair) -> attrs
            resid_of = {}
            for k, ident in enumerate(side['ids']):
                resid_of[k] = ident['resid']
                if ident['fetch']:
                    desc = case['universe'][ffname][kind][ident['resname']]
                    for i, atom in enumerate(desc['atoms']):
                        attrs = block_node_attrs(m['type'], ident['resname'], atom, i)
                        attrs['resid'] = ident['resid']
                        nodes.append(((ident['resid'], atom), attrs, False))
                    for a, b in desc['edges']:
                        edges[frozenset(((ident['resid'], a), (ident['resid'], b)))] = {}
            for node in side['nodes']:
                ident = side['ids'][node['id']]
                attrs = {'resname': ident['resname'], 'resid': ident['resid']}
                attrs.update(ident['attrs'] or {})
                attrs['atomname'] = node['name']
                attrs.update(node['attrs'] or {})
                nodes.append(((ident['resid'], node['name']), attrs, True))
            for edge in side['edges']:
                key = frozenset(((resid_of[edge['a'][0]], edge['a'][1]), (resid_of[edge['b'][0]], edge['b'][1])))
                edges.setdefault(key, {})
                edges[key].update(edge['attrs'] or {})
            sides[direction] = {'nodes': nodes, 'edges': edges, 'resid_of': resid_of}

        def desc(direction, atom):
            return (sides[direction]['resid_of'][atom[0]], atom[1])

        mapping = {}
        for line in m['map']:
            weight = 1 if line['w'] is None else float(line['w'])
            mapping.setdefault(desc('from', line['f']), {})[desc('to', line['t'])] = weight
        references = {desc('to', r['t']): desc('from', r['f']) for r in m['refs']}
        kept = set(mapping)
        from_nodes = [n for n in sides['from']['nodes'] if n[0] in kept]
        from_edges = {k: v for k, v in sides['from']['edges'].items() if k <= kept}
        out.append({'type': m['type'], 'ff_from': m['from']['ff'], 'ff_to': m['to']['ff'],
                    'names': tuple(i['resname'] for i in m['from']['ids']),
                    'mapping': mapping, 'references': references,
                    'from_nodes': from_nodes, 'from_edges': from_edges,
                    'to_nodes': sides['to']['nodes'], 'to_edges': sides['to']['edges']})
    return out


BOOKKEEPING = ('charge_group', 'modifications')


def describe_graph(graph, label):
    nodes, key_to_desc = [], {}
    for key in graph.nodes:
        attrs = dict(graph.nodes[key])
        if 'atomname' not in attrs or 'resid' not in attrs:
            raise Violation('mapping-node-attrs', '%s: node %r lacks atomname/resid: %r' % (label, key, attrs))
        d = (attrs['resid'], attrs['atomname'])
        key_to_desc[key] = d
        nodes.append((d, {k: v for k, v in attrs.items() if k not in BOOKKEEPING}))
    edges = {}
    for a, b, attrs in graph.edges(data=True):
        edges[frozenset((key_to_desc[a], key_to_desc[b]))] = dict(attrs)
    return nodes, edges, key_to_desc


def compare_nodes(what, got, exp, mtype, text):
    def norm(desc, attrs, extra):
        attrs = dict(attrs)
        if mtype == 'modification' and extra:
            attrs.pop('resname', None)   # whether an extra node of a modification mapping keeps a resname is not documented
        return (desc, attrs)
    extras = {d for d, _a, extra in exp if extra}
    got_n = [norm(d, a, d in extras) for d, a in got]
    exp_n = [norm(d, a, extra) for d, a, extra in exp]
    if got_n != exp_n:
        raise Violation('mapping-' + what.split(':')[0], '%s: loaded %r, declared %r\n%s' % (what, got_n, exp_n, text))


def compare_one(index, loaded, exp, text):
    label = 'mapping #%d (%s)' % (index, exp['type'])

    def cmp(what, got, want):
        if got != want:
            raise Violation('mapping-' + what, '%s %s: loaded %r, declared %r\n%s' % (label, what, got, want, text))
    cmp('type', loaded.type, exp['type'])
    cmp('ff-from', getattr(loaded.ff_from, 'name', loaded.ff_from), exp['ff_from'])
    cmp('ff-to', getattr(loaded.ff_to, 'name', loaded.ff_to), exp['ff_to'])
    cmp('names', tuple(loaded.names), exp['names'])
    from_nodes, from_edges, from_keys = describe_graph(loaded.block_from, label + ' block_from')
    to_nodes, to_edges, to_keys = describe_graph(loaded.block_to, label + ' block_to')
    compare_nodes('block-from-nodes: ' + label, from_nodes, exp['from_nodes'], exp['type'], text)
    compare_nodes('block-to-nodes: ' + label, to_nodes, exp['to_nodes'], exp['type'], text)
    cmp('block-from-edges', from_edges, exp['from_edges'])
    cmp('block-to-edges', to_edges, exp['to_edges'])
    got_map = {}
    for kf, targets in loaded.mapping.items():
        if kf not in from_keys:
            raise Violation('mapping-key-not-in-block', '%s: mapping key %r is not a node of block_from\n%s' % (label, kf, text))
        for kt, weight in targets.items():
            if kt not in to_keys:
                raise Violation('mapping-key-not-in-block', '%s: mapping target %r is not a node of block_to\n%s' % (label, kt, text))
            got_map.setdefault(from_keys[kf], {})[to_keys[kt]] = weight
    cmp('weights', got_map, exp['mapping'])
    got_refs = {}
    for kt, kf in loaded.references.items():
        if kt not in to_keys or kf not in from_keys:
            raise Violation('mapping-key-not-in-block', '%s: reference %r -> %r uses unknown nodes\n%s' % (label, kt, kf, text))
        got_refs[to_keys[kt]] = from_keys[kf]
    cmp('references', got_refs, exp['references'])


def load(text, ffs):
    return list(MappingDirector(ffs).parse(iter(text.split('\n'))))


def classify(case, records):
    classes = set()
    if len(case['mappings']) > 1:
        classes.add('several-mappings')
    if len({m['type'] for m in case['mappings']}) > 1:
        classes.add('block-and-modification')
    headers = {}
    for r in records:
        if r['kind'] == 'header' and not r.get('top'):
            headers.setdefault(r['mapping'], []).append(r['sec'])
    for secs in headers.values():
        if len(secs) != len(set(secs)):
            classes.add('repeated-section')
    for m in case['mappings']:
        for direction in ('from', 'to'):
            side = m[direction]
            styles = {(i['style'], i['fetch']) for i in side['ids']}
            if ('short', True) in styles:
                classes.add('shorthand-fetched')
            if ('short', False) in styles:
                classes.add('shorthand-not-fetched')
            if ('long', True) in styles:
                classes.add('longhand-fetched')
            if ('long', False) in styles:
                classes.add('longhand-not-fetched')
            if any(i['bare'] for i in side['ids']):
                classes.add('bare-shorthand')
            if sum(1 for i in side['ids'] if i['fetch']) >= 2:
                classes.add('two-fetched-blocks')
            if side['nodes']:
                classes.add('extra-nodes')
            if direction == 'to' and any(n['attrs'] and 'resname' in n['attrs'] for n in side['nodes']):
                classes.add('node-attribute-overrides-identifier')
            if side['edges']:
                classes.add('extra-edges')
        if m['refs']:
            classes.add('reference-atoms')
        if any(l['w'] not in (None, '1') for l in m['map']):
            classes.add('explicit-weight')
        if m['macros']:
            classes.add('macros-section')
        mapped = {tuple(l['f']) for l in m['map']}
        total = sum(len(i['atoms']) for i in m['from']['ids'])
        if m['map'] and len(mapped) < total:
            classes.add('unmapped-from-nodes-removed')
    text = text_of(records)
    if '$' in text:
        classes.add('macro-used')
    if any(r.get('role') in ('map', 'edge', 'ref', 'node') and ':' not in r['text'].split(';')[0] for r in records):
        classes.add('identifier-omitted')
    nontrivial = ('explicit-weight' in classes or 'reference-atoms' in classes) and \
        ('several-mappings' in classes or 'extra-nodes' in classes or 'two-fetched-blocks' in classes)
    return classes, nontrivial


def run_model(case):
    records = serialise(case)
    text = text_of(records)
    ffs = build_force_fields(case)
    exp = expected(case)
    try:
        loaded = load(text, ffs)
    except Exception as exc:
        bucket = 'mapping-wellformed-rejected'
        if isinstance(exc.__cause__, ValueError) and 'invalid literal for int' in str(exc.__cause__):
            bucket = 'mapping-float-weight-rejected'
        raise Violation(bucket, 'well-formed .mapping rejected: %r (cause %r)\n%s' % (exc, exc.__cause__, text)) from None
    if len(loaded) != len(exp):
        raise Violation('mapping-count', '%d mappings declared, %d loaded\n%s' % (len(exp), len(loaded), text))
    for i, (got, want) in enumerate(zip(loaded, exp)):
        compare_one(i, got, want, text)
    classes, nontrivial = classify(case, records)
    return Outcome(sorted(classes), nontrivial)


# ---------------------------------------------------------------------------
# faults

FAULTS = ['undefined-atom', 'duplicate-node-referenced', 'unknown-subsection', 'unknown-section', 'content-under-top-header',
          'old-style-molecule-section', 'undefined-identifier', 'undefined-block', 'unknown-force-field',
          'unbalanced-open', 'unbalanced-close', 'too-few-tokens', 'reference-extra-token', 'non-numeric-weight',
          'header-unterminated']


def _data(records, *roles):
    return [i for i, r in enumerate(records) if r['kind'] == 'data' and r.get('role') in roles]


def _split(record):
    """Tokens of a data line (attribute dictionaries are kept whole), without the comment."""
    body = record['text'].split(';')[0].strip()
    if '{' in body:
        k = body.index('{')
        return body[:k].split() + [body[k:]]
    return body.split()


def inject(case, fault, pos):
    records = serialise(case)
    lines = [r['text'] for r in records]

    def pick(indices):
        return indices[pos % len(indices)] if indices else None

    if fault == 'unknown-section':
        i = pos % (len(lines) + 1)
        return '\n'.join(lines[:i] + ['[ frobnicate ]', 'CA BB'] + lines[i:]), i
    if fault == 'unknown-subsection':
        i = pick([k for k, r in enumerate(records) if r['kind'] == 'data'])
        new = [['[ from atoms ]', 'CA'], ['[ mappings ]', 'CA BB'], ['[ reference ]', 'BB CA']][pos % 3]
        return '\n'.join(lines[:i + 1] + new + lines[i + 1:]), i + 1
    if fault == 'content-under-top-header':
        i = pick([k for k, r in enumerate(records) if r['kind'] == 'header' and r.get('top') and r['sec'] != 'macros'])
        lines.insert(i + 1, 'aa_ff')
        return '\n'.join(lines), i + 1
    if fault == 'old-style-molecule-section':
        i = pos % (len(lines) + 1)
        return '\n'.join(lines[:i] + ['[ molecule ]', 'ALA'] + lines[i:]), i
    if fault == 'undefined-atom':
        i = pick(_data(records, 'map', 'edge', 'ref'))
        if i is None:
            return None
        toks = _split(records[i])
        k = (pos // 5) % 2
        toks[k] = (toks[k].split(':')[0] + ':ZZZ9') if ':' in toks[k] else 'ZZZ9'
        lines[i] = ' '.join(toks)
        return '\n'.join(lines), i
    if fault == 'undefined-identifier':
        i = pick(_data(records, 'map', 'edge', 'ref', 'node'))
        if i is None:
            return None
        toks = _split(records[i])
        toks[0] = 'NOPE:' + toks[0].split(':')[-1]
        lines[i] = ' '.join(toks)
        return '\n'.join(lines), i
    if fault == 'undefined-block':
        cands = [i for i in _data(records, 'block-short', 'block-long') if not _split(records[i])[0].startswith('!')]
        i = pick(cands)
        if i is None:
            return None
        toks = _split(records[i])
        if records[i]['role'] == 'block-short':
            toks[0] = 'NOPE' + ('#' + toks[0].split('#')[1] if '#' in toks[0] else '')
        else:
            attrs = json.loads(toks[1])
            attrs['resname'] = 'NOPE'
            toks[1] = json.dumps(attrs)
        lines[i] = ' '.join(toks)
        return '\n'.join(lines), i
    if fault == 'unknown-force-field':
        # only where a block is fetched from that force field afterwards
        cands = []
        for i in _data(records, 'ff'):
            r = records[i]
            m = case['mappings'][r['mapping']]
            if any(ident['fetch'] for ident in m[r['sec']]['ids']):
                cands.append(i)
        i = pick(cands)
        if i is None:
            return None
        lines[i] = 'no_such_ff'
        return '\n'.join(lines), i
    if fault == 'duplicate-node-referenced':
        # a second node with the name of an atom that a later [ mapping ] line refers to
        cands = _data(records, 'map')
        i = pick(cands)
        if i is None:
            return None
        r = records[i]
        m = case['mappings'][r['mapping']]
        first = min(k for k in cands if records[k]['mapping'] == r['mapping'])
        # the line in the model
        nth = [k for k in cands if records[k]['mapping'] == r['mapping']].index(i)
        line = m['map'][nth]
        direction = ['from', 'to'][(pos // 3) % 2]
        atom = line['f'] if direction == 'from' else line['t']
        ident = m[direction]['ids'][atom[0]]['ident']
        # insert right before the header of the first mapping section of this mapping
        h = first
        while records[h]['kind'] != 'header':
            h -= 1
        new = ['[ %s nodes ]' % direction, '%s:%s' % (ident, atom[1])]
        return '\n'.join(lines[:h] + new + lines[h:]), h + 1
    if fault in ('unbalanced-open', 'unbalanced-close'):
        cands = [i for i, r in enumerate(records) if r['kind'] == 'data' and '{' in r['text'].split(';')[0] and r['sec'] != 'macros']
        i = pick(cands)
        if i is None:
            return None
        body = records[i]['text'].split(';')[0]
        if fault == 'unbalanced-open':
            k = body.rfind('}')
        else:
            k = body.find('{')
        lines[i] = body[:k] + body[k + 1:]
        return '\n'.join(lines), i
    if fault == 'too-few-tokens':
        i = pick(_data(records, 'map', 'edge', 'ref'))
        if i is None:
            return None
        lines[i] = _split(records[i])[0]
        return '\n'.join(lines), i
    if fault == 'reference-extra-token':
        i = pick(_data(records, 'ref'))
        if i is None:
            return None
        lines[i] = ' '.join(_split(records[i]) + ['1'])
        return '\n'.join(lines), i
    if fault == 'non-numeric-weight':
        i = pick(_data(records, 'map'))
        if i is None:
            return None
        lines[i] = ' '.join(_split(records[i])[:2] + ['heavy'])
        return '\n'.join(lines), i
    if fault == 'header-unterminated':
        i = pick([k for k, r in enumerate(records) if r['kind'] == 'header'])
        lines[i] = lines[i].split(';')[0].rstrip().rstrip(']')
        return '\n'.join(lines), i
    raise AssertionError(fault)


def run_fault(case):
    res = inject(case['file'], case['fault'], case['pos'])
    if res is None:
        return Outcome(['not-applicable'], False)
    text, lineno = res
    ffs = build_force_fields(case['file'])
    try:
        load(text, ffs)
    except Exception:  # pylint: disable=broad-except
        tops = sum(1 for ln in text.split('\n')[:lineno] if ln.split(';')[0].strip().strip('[ ]') in ('block', 'modification'))
        return Outcome([case['fault']], tops >= 2)
    raise Violation('mapping-fault-accepted:' + case['fault'],
                    '.mapping with injected fault %r near line %d was parsed without error:\n%s' % (case['fault'], lineno + 1, text))


def strategy_fault(tier):
    return st.fixed_dictionaries({'file': file_strategy(tier), 'fault': st.sampled_from(FAULTS), 'pos': st.integers(0, 200)})


# ---------------------------------------------------------------------------
# float weights ("weight := float | int")

def strategy_float(tier):
    return file_strategy(tier, float_weights=True)


def match_float(spec, part, case, violation):
    return part == 'mapping-float-weights' and violation.bucket == 'mapping-float-weight-rejected'


# ---------------------------------------------------------------------------
# the documented example (doc/source/file_formats.rst, "Example file of .mapping file")

DOC_EXAMPLE = """[modification]
[from]
amber
[to]
martini3001

[from blocks]
C-ter
[to blocks]
C-ter

[from nodes]
N
HN

[from edges]
HN N
N CA

[mapping]
CA BB
C  BB
O  BB
OXT BB
"""


def _enum_doc(tier, shard, nshards):
    if shard == 0:
        yield {'name': 'rst-example', 'text': DOC_EXAMPLE}


def run_doc(case):
    amber, martini = ForceField(name='amber'), ForceField(name='martini3001')
    mod = Link(name='C-ter', force_field=amber)
    for a in ['CA', 'C', 'O', 'OXT']:
        mod.add_node(a, atomname=a, PTM_atom=(a == 'OXT'))
    mod.add_edges_from([('CA', 'C'), ('C', 'O'), ('C', 'OXT')])
    amber.modifications['C-ter'] = mod
    cg = Link(name='C-ter', force_field=martini)
    cg.add_node('BB', atomname='BB', replace={'atype': 'Q5'})
    martini.modifications['C-ter'] = cg
    try:
        loaded = load(case['text'], {'amber': amber, 'martini3001': martini})
    except Exception as exc:  # pylint: disable=broad-except
        raise Violation('mapping-doc-example-rejected', 'documented example rejected: %r / %r' % (exc, exc.__cause__)) from None
    if len(loaded) != 1:
        raise Violation('mapping-doc-example', '%d mappings loaded' % len(loaded))
    m = loaded[0]
    nodes, edges, keys = describe_graph(m.block_from, 'doc example')
    got = {keys[kf][1]: {m.block_to.nodes[kt]['atomname']: w for kt, w in t.items()} for kf, t in m.mapping.items()}
    exp = {a: {'BB': 1} for a in ['CA', 'C', 'O', 'OXT']}
    if got != exp or m.type != 'modification' or tuple(m.names) != ('C-ter',):
        raise Violation('mapping-doc-example', 'loaded %r type %r names %r' % (got, m.type, m.names))
    # N and HN are not mapped: "Only nodes described in mapping will be used"
    if sorted(d[1] for d, _ in nodes) != ['C', 'CA', 'O', 'OXT']:
        raise Violation('mapping-doc-example', 'block_from nodes %r' % (nodes,))
    return Outcome(['rst-example'], True)


MATCHERS = {'mapping-float-weights': match_float}
DEFECT_PARTS = ['mapping-float-weights']

RULE_TEXT = ('mapping-model: abstract .mapping files with 1-3 block/modification mappings over two force fields built from the '
             'model (3 blocks and 2 modifications each with drawn atoms and edges), 1-3 block identifiers per direction '
             '(shorthand with and without residue number, "!" no-fetch, longhand with extra attributes), up to 3 extra nodes and '
             'edges per direction, up to 7 mapping lines with optional integer weights, up to 2 reference atoms, [ macros ] '
             'sections whose values are used as "$name" in later lines, sections interleaved and repeated, identifiers omitted '
             'where the docstring rule allows it; non-trivial = an explicit weight or a reference atom together with several '
             'mappings, extra nodes or two fetched blocks. mapping-faults: 15 faults at generated positions; non-trivial = at least '
             'two mapping headers precede the fault. mapping-float-weights: the same files with float weights. '
             'mapping-doc-example: the literal example of the documentation.')

PARTS = [
    Part('mapping-model', run_model, strategy=file_strategy, examples={'quick': 1000, 'thorough': 30000},
         floors={'several-mappings': 0.3, 'shorthand-fetched': 0.3, 'longhand-fetched': 0.15, 'longhand-not-fetched': 0.1,
                 'shorthand-not-fetched': 0.1, 'two-fetched-blocks': 0.15, 'extra-nodes': 0.3, 'extra-edges': 0.3,
                 'reference-atoms': 0.2, 'explicit-weight': 0.3, 'macro-used': 0.05, 'identifier-omitted': 0.2,
                 'repeated-section': 0.2, 'bare-shorthand': 0.1, 'block-and-modification': 0.1,
                 'node-attribute-overrides-identifier': 0.05}),
    Part('mapping-faults', run_fault, strategy=strategy_fault, examples={'quick': 500, 'thorough': 15000}),
    Part('mapping-float-weights', run_model, strategy=strategy_float, examples={'quick': 48, 'thorough': 400},
         shrink_budget={'quick': 40, 'thorough': 200}),
    Part('mapping-doc-example', run_doc, enumerate=_enum_doc),
]
