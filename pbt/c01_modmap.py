"""
C01, extra part `modification-mappings`: the quantifier of the property names modification mappings, the toy generator of
the main part does not produce them.  Here a chain of residues X (atoms A-B, one particle X1) carries, per residue, none,
one or two of the modifications

    P   one extra atom P on B            -> mapped to one extra particle PB on X1 (edge + bond)
    Q   two extra atoms Q1-Q2 on A       -> mapped to one extra particle QA on X1 (weights 1 and 2, edge + bond)
    R   one extra atom R on B            -> NO modification mapping exists

The same modification may sit on one residue, on neighbouring residues (one connected group of modified residues) or on
residues far apart (separate groups that need the same modification mapping).  Expected, from the statement alone: every
place where a mapping fits yields exactly one copy of its target (one X1 per residue, one PB per P, one QA per Q, one bond
interaction per P / Q), each particle records exactly the atoms and weights of its mapping, particles of different placements
are connected exactly when their atoms are bonded, nothing overlaps so no inconsistent-data warning is due, and the atoms
of an R (which no mapping turns into anything) are reported by an unmapped-atom warning instead of vanishing silently.
"""
from hypothesis import strategies as st

import vermouth
import vermouth.forcefield
from vermouth.molecule import Molecule, Block, Link
from vermouth.map_parser import Mapping
from vermouth.processors.do_mapping import do_mapping, DoMapping

from pbt.core import Part, Outcome, Violation
from pbt.util import capture_logs

RULE_TEXT = ('modification-mappings: chains of 1-8 residues X (atoms A-B -> particle X1); per residue a subset of the '
             'modifications P (1 atom -> particle PB), Q (2 atoms -> particle QA, weights 1 and 2) and R (1 atom, no mapping); '
             'node keys dense or sparse, modification atoms listed after their residue or after the whole chain; through '
             'do_mapping or a (re-used) DoMapping object; non-trivial = the same mapped modification occurs in two residues '
             'that are not neighbours')

_STATE = {}


def preload():
    if _STATE:
        return
    ff_aa = vermouth.forcefield.ForceField(name='c01mod_aa')
    ff_cg = vermouth.forcefield.ForceField(name='c01mod_cg')
    blk_from = Block(force_field=ff_aa, name='X')
    blk_from.add_nodes_from([('A', dict(atomname='A', resname='X', resid=1)), ('B', dict(atomname='B', resname='X', resid=1))])
    blk_from.add_edge('A', 'B')
    blk_to = Block(force_field=ff_cg, name='X', nrexcl=1)
    blk_to.add_node('X1', atomname='X1', resname='X', resid=1)
    map_x = Mapping(blk_from, blk_to, {'A': {'X1': 1}, 'B': {'X1': 1}}, {}, ff_from=ff_aa, ff_to=ff_cg, names=('X',))

    z_from = Block(force_field=ff_aa, name='Z')
    z_from.add_nodes_from([('ZA', dict(atomname='ZA', resname='Z', resid=1)), ('ZB', dict(atomname='ZB', resname='Z', resid=1))])
    z_from.add_edge('ZA', 'ZB')
    z_to = Block(force_field=ff_cg, name='Z', nrexcl=1)
    z_to.add_node('Z1', atomname='Z1', resname='Z', resid=1)
    map_z = Mapping(z_from, z_to, {'ZA': {'Z1': 1}, 'ZB': {'Z1': 1}}, {}, ff_from=ff_aa, ff_to=ff_cg, names=('Z',))

    mods = {}
    p_from = Link(force_field=ff_aa, name='P')
    p_from.add_node('B', atomname='B', PTM_atom=False)
    p_from.add_node('P', atomname='P', PTM_atom=True)
    p_from.add_edge('B', 'P')
    p_to = Link(force_field=ff_cg, name='P')
    p_to.add_node('X1', atomname='X1', PTM_atom=False)
    p_to.add_node('PB', atomname='PB', PTM_atom=True)
    p_to.add_edge('X1', 'PB')
    p_to.add_interaction('bonds', ['X1', 'PB'], ['1', '0.3', '1000'])
    map_p = Mapping(p_from, p_to, {'B': {'X1': 1}, 'P': {'PB': 1}}, {}, ff_from=ff_aa, ff_to=ff_cg, names=('P',),
                    type='modification')
    mods['P'] = p_from

    q_from = Link(force_field=ff_aa, name='Q')
    q_from.add_node('A', atomname='A', PTM_atom=False)
    q_from.add_node('Q1', atomname='Q1', PTM_atom=True)
    q_from.add_node('Q2', atomname='Q2', PTM_atom=True)
    q_from.add_edges_from([('A', 'Q1'), ('Q1', 'Q2')])
    q_to = Link(force_field=ff_cg, name='Q')
    q_to.add_node('X1', atomname='X1', PTM_atom=False)
    q_to.add_node('QA', atomname='QA', PTM_atom=True)
    q_to.add_edge('X1', 'QA')
    q_to.add_interaction('bonds', ['X1', 'QA'], ['1', '0.4', '500'])
    map_q = Mapping(q_from, q_to, {'A': {'X1': 1}, 'Q1': {'QA': 1}, 'Q2': {'QA': 2}}, {}, ff_from=ff_aa, ff_to=ff_cg,
                    names=('Q',), type='modification')
    mods['Q'] = q_from

    # W spans two residues: it anchors on B of one residue and on A of the next (the two are bonded) and adds one atom bonded to both;
    # on the coarse side both anchors are particles called X1
    w_from = Link(force_field=ff_aa, name='W')
    w_from.add_node('B', atomname='B', PTM_atom=False)
    w_from.add_node('A', atomname='A', PTM_atom=False)
    w_from.add_node('W', atomname='W', PTM_atom=True)
    w_from.add_edges_from([('B', 'W'), ('W', 'A'), ('B', 'A')])
    w_to = Link(force_field=ff_cg, name='W')
    w_to.add_node('X1a', atomname='X1', PTM_atom=False)
    w_to.add_node('X1b', atomname='X1', PTM_atom=False)
    w_to.add_node('WB', atomname='WB', PTM_atom=True)
    w_to.add_edges_from([('X1a', 'WB'), ('X1b', 'WB'), ('X1a', 'X1b')])
    w_to.add_interaction('bonds', ['X1a', 'WB'], ['1', '0.5', '250'])
    map_w = Mapping(w_from, w_to, {'B': {'X1a': 1}, 'A': {'X1b': 1}, 'W': {'WB': 1}}, {}, ff_from=ff_aa, ff_to=ff_cg,
                    names=('W',), type='modification')
    mods['W'] = w_from

    r_from = Link(force_field=ff_aa, name='R')
    r_from.add_node('B', atomname='B', PTM_atom=False)
    r_from.add_node('R', atomname='R', PTM_atom=True)
    r_from.add_edge('B', 'R')
    mods['R'] = r_from
    _STATE.update(ff_aa=ff_aa, ff_cg=ff_cg, mods=mods,
                  mappings={'c01mod_aa': {'c01mod_cg': {('X',): map_x, ('Z',): map_z, ('P',): map_p, ('Q',): map_q, ('W',): map_w}}})


def _strategy(tier):
    residue = st.sampled_from([[], [], [], [], ['P'], ['P'], ['P'], ['Q'], ['Q'], ['P', 'Q'], ['R'], ['Q', 'P'], ['W'], ['W', 'P']])
    return st.fixed_dictionaries({
        'residues': st.lists(residue, min_size=1, max_size=8),
        'key0': st.sampled_from([0, 1, 10]), 'keystep': st.sampled_from([1, 1, 3]),
        'ptm_last': st.booleans(),
        'resid0': st.sampled_from([1, 1, 5, 40]),
        'via': st.sampled_from(['function', 'processor', 'processor-used-before']),
        # one residue of another kind (atoms ZA-ZB -> particle Z1) whose atom ZB may have been renamed by an earlier stage: the
        # atom then carries its original name as _old_atomname, and that is the name mappings go by
        'z_at': st.one_of(st.none(), st.integers(0, 7)), 'z_renamed': st.booleans(),
        # a bond between atoms that two different modification placements add (a cross-link between modified side chains)
        'xlink': st.one_of(st.none(), st.none(), st.tuples(st.integers(0, 20), st.integers(0, 20)).map(list)),
    })


def _build(case):
    mods = _STATE['mods']
    mol = Molecule(force_field=_STATE['ff_aa'])
    key = case['key0']
    pending = []
    layout = []
    prev_b = None
    z_at = case.get('z_at')
    if z_at is not None:
        z_at = z_at % len(case['residues'])
    carried = []
    bridges = []
    nres = len(case['residues'])
    for ridx, names in enumerate(case['residues']):
        is_z = ridx == z_at
        if is_z:
            names = []
        if 'W' in names and (ridx + 1 >= nres or ridx + 1 == z_at):
            names = [n for n in names if n != 'W']      # the bridge needs a following residue of kind X
        attached = [mods[n] for n in names] + [mods[n] for n in carried if n not in names]
        carried_here, carried = list(carried), (['W'] if 'W' in names else [])
        common = dict(resname='Z' if is_z else 'X', resid=case['resid0'] + ridx, chain='A')
        extra = {'modifications': list(attached)} if attached else {}
        a_key, b_key = key, key + case['keystep']
        if is_z:
            mol.add_node(a_key, atomname='ZA', element='C', **common)
            if case.get('z_renamed'):
                mol.add_node(b_key, atomname='ZQ', _old_atomname='ZB', element='C', **common)
            else:
                mol.add_node(b_key, atomname='ZB', element='C', **common)
        else:
            mol.add_node(a_key, atomname='A', element='C', **common, **extra)
            mol.add_node(b_key, atomname='B', element='C', **common, **extra)
        mol.add_edge(a_key, b_key)
        if prev_b is not None:
            mol.add_edge(prev_b, a_key)
        prev_b = b_key
        key = b_key + case['keystep']
        entry = {'A': a_key, 'B': b_key, 'mods': list(names), 'ptm': {}, 'z': is_z, 'carried': carried_here}
        if 'W' in carried_here:
            bridges.append((layout[-1], a_key))
        for name in names:
            chain = {'P': [('P', 'B')], 'Q': [('Q1', 'A'), ('Q2', 'Q1')], 'R': [('R', 'B')], 'W': [('W', 'B')]}[name]
            atoms = [(atom, parent, common, extra) for atom, parent in chain]
            if case['ptm_last']:
                pending.append((entry, atoms))
            else:
                for atom, parent, com, ext in atoms:
                    mol.add_node(key, atomname=atom, element='P', PTM_atom=True, **com, **ext)
                    mol.add_edge(entry['ptm'].get(parent, entry.get(parent)), key)
                    entry['ptm'][atom] = key
                    key += case['keystep']
        layout.append(entry)
    for entry, atoms in pending:
        for atom, parent, com, ext in atoms:
            mol.add_node(key, atomname=atom, element='P', PTM_atom=True, **com, **ext)
            mol.add_edge(entry['ptm'].get(parent, entry.get(parent)), key)
            entry['ptm'][atom] = key
            key += case['keystep']
    for owner, a_next in bridges:
        mol.add_edge(owner['ptm']['W'], a_next)
        owner['bridge_to'] = a_next
    xlink = None
    if case.get('xlink') and not any('R' in e['mods'] for e in layout):
        ends = [(ridx, name, e['ptm'][atom]) for ridx, e in enumerate(layout) for name, atom in (('P', 'P'), ('Q', 'Q2'))
                if name in e['mods']]
        if len(ends) >= 2:
            a = ends[case['xlink'][0] % len(ends)]
            b = ends[case['xlink'][1] % len(ends)]
            if a[2] != b[2] and not mol.has_edge(a[2], b[2]) and a[0] != b[0]:
                mol.add_edge(a[2], b[2])
                xlink = (a, b)
    for entry in layout:
        entry['xlink'] = xlink
    return mol, layout


def _run(case):
    preload()
    mol, layout = _build(case)
    kwargs = dict(attribute_keep=('chain',), attribute_must=('resname',), attribute_stash=('resid',))
    with capture_logs() as logs:
        if case['via'] == 'function':
            out = do_mapping(mol, _STATE['mappings'], _STATE['ff_cg'], **kwargs)
        else:
            processor = DoMapping(_STATE['mappings'], _STATE['ff_cg'], **kwargs)
            if case['via'] == 'processor-used-before':
                processor.run_molecule(_build(dict(case, residues=list(reversed(case['residues']))))[0])
                logs.records[:] = []
            out = processor.run_molecule(mol)
    records = [r for r in logs.records if r.levelno >= 30]
    types = [getattr(r, 'type', None) for r in records]
    has_r = any('R' in e['mods'] for e in layout)
    label = 'modifications per residue %r' % ([e['mods'] for e in layout],)
    # two modification placements that anchor on the same atom overlap there (W and P on B of one residue, W and the Q of the
    # following residue on its A): the statement asks for an inconsistent-data warning then, and for none otherwise
    shared_anchor = any('W' in e['mods'] and ('P' in e['mods'] or (i + 1 < len(layout) and 'Q' in layout[i + 1]['mods']))
                        for i, e in enumerate(layout))
    if shared_anchor and 'inconsistent-data' not in types and not any(
            'R' in e['mods'] for e in layout):
        raise Violation('mod-overlap-silent', '%s: two modification placements anchor on the same atom and no inconsistent-data '
                        'warning was raised' % label)
    if 'inconsistent-data' in types and not shared_anchor:
        raise Violation('mod-spurious-overlap-warning', '%s: inconsistent-data warning although no two placements overlap: %s' % (
            label, [r.getMessage()[:120] for r in records if getattr(r, 'type', None) == 'inconsistent-data'][:2]))
    if has_r and 'unmapped-atom' not in types:
        raise Violation('mod-unmapped-silent', '%s: the atoms of modification R contribute to no particle and no unmapped-atom warning was raised' % label)
    if not has_r and 'unmapped-atom' in types:
        raise Violation('mod-unmapped-spurious', '%s: unmapped-atom warning although every atom is mapped: %s' % (
            label, [r.getMessage()[:160] for r in records if getattr(r, 'type', None) == 'unmapped-atom'][:2]))
    # Modified residues that are neighbours form one group, and the modification mappings are chosen per group: a group
    # that contains an R (no mapping) is reported as a whole and none of its modifications is placed.  The statement does not
    # settle what becomes of the mapped modifications of such a group, so those cases are judged on their warnings only.
    group = []
    for entry in layout + [{'mods': [], 'carried': []}]:
        if entry['mods'] or entry.get('carried'):
            group.append(entry)
            continue
        names = {n for e in group for n in e['mods']}
        if 'R' in names and names & {'P', 'Q', 'W'}:
            return Outcome(['group-with-and-without-mapping-not-judged'], False)
        group = []
    # who records which atom
    holders = {}
    for idx in out.nodes:
        for atom, weight in (out.nodes[idx].get('mapping_weights') or {}).items():
            holders.setdefault(atom, []).append((idx, weight))
    by_name = {}
    for idx in out.nodes:
        by_name.setdefault(out.nodes[idx].get('atomname'), []).append(idx)
    n_z = sum(1 for e in layout if e.get('z'))
    want_counts = {'X1': len(layout) - n_z, 'Z1': n_z, 'PB': sum('P' in e['mods'] for e in layout),
                   'QA': sum('Q' in e['mods'] for e in layout), 'WB': sum('W' in e['mods'] for e in layout)}
    got_counts = {name: len(by_name.get(name, [])) for name in want_counts}
    other = sorted(str(n) for n in by_name if n not in want_counts)
    if got_counts != want_counts or other:
        raise Violation('mod-particle-count', '%s: particles %r (others %r), expected %r: every place where a mapping fits yields '
                        'exactly one copy of its target' % (label, got_counts, other, want_counts))
    x1_of = {}
    for ridx, entry in enumerate(layout):
        pname = 'Z1' if entry.get('z') else 'X1'
        found = [idx for idx, w in holders.get(entry['A'], []) if out.nodes[idx]['atomname'] == pname]
        if len(found) != 1:
            raise Violation('mod-block-particle', '%s: first atom of residue %d is recorded by %d %s particles' % (label, ridx, len(found), pname))
        x1 = found[0]
        x1_of[ridx] = x1
        want = {entry['A']: 1, entry['B']: 1}
        got = {a: w for a, w in (out.nodes[x1].get('mapping_weights') or {}).items()}
        if got != want:
            raise Violation('mod-weights', '%s: X1 of residue %d records %r, expected %r' % (label, ridx, got, want))
        if out.nodes[x1].get('resid') != ridx + 1:
            raise Violation('mod-resid', '%s: X1 of residue %d has resid %r, expected consecutive numbering' % (label, ridx, out.nodes[x1].get('resid')))
        if out.nodes[x1].get('_old_resid') != case['resid0'] + ridx:
            raise Violation('mod-old-resid', '%s: X1 of residue %d has _old_resid %r, input resid %d' % (
                label, ridx, out.nodes[x1].get('_old_resid'), case['resid0'] + ridx))
    want_edges = set()
    want_bonds = []
    for ridx, entry in enumerate(layout):
        if ridx:
            want_edges.add(frozenset((x1_of[ridx - 1], x1_of[ridx])))
        for name, pname, weights, params in (('P', 'PB', {'P': 1}, ['1', '0.3', '1000']), ('Q', 'QA', {'Q1': 1, 'Q2': 2}, ['1', '0.4', '500']),
                                             ('W', 'WB', {'W': 1}, ['1', '0.5', '250'])):
            if name not in entry['mods']:
                continue
            first = sorted(weights)[0]
            found = [idx for idx, w in holders.get(entry['ptm'][first], [])]
            if len(found) != 1:
                raise Violation('mod-atom-holders', '%s: modification atom %s of residue %d is recorded by %d particles, expected '
                                'exactly one' % (label, first, ridx, len(found)))
            particle = found[0]
            if out.nodes[particle].get('atomname') != pname:
                raise Violation('mod-atom-holders', '%s: modification atom %s of residue %d is recorded by a particle named %r' % (
                    label, first, ridx, out.nodes[particle].get('atomname')))
            want = {entry['ptm'][a]: w for a, w in weights.items()}
            got = dict(out.nodes[particle].get('mapping_weights') or {})
            if got != want:
                raise Violation('mod-weights', '%s: %s of residue %d records %r, expected %r' % (label, pname, ridx, got, want))
            want_edges.add(frozenset((x1_of[ridx], particle)))
            want_bonds.append((frozenset((x1_of[ridx], particle)), params))
            if name == 'W':
                want_edges.add(frozenset((x1_of[ridx + 1], particle)))
        if 'R' in entry['mods'] and holders.get(entry['ptm']['R']):
            raise Violation('mod-unmapped-recorded', '%s: atom R of residue %d (no mapping) is recorded by %r' % (
                label, ridx, holders[entry['ptm']['R']]))
    xlink = layout[0].get('xlink') if layout else None
    if xlink:
        ends = []
        for ridx, name, atom in xlink:
            found = [idx for idx, w in holders.get(atom, [])]
            if len(found) != 1:
                raise Violation('mod-atom-holders', '%s: cross-linked modification atom %r is recorded by %d particles' % (label, atom, len(found)))
            ends.append(found[0])
        want_edges.add(frozenset(ends))
    got_edges = {frozenset(e) for e in out.edges}
    if got_edges != want_edges:
        raise Violation('mod-edges', '%s: edges beyond the expected %r, expected edges absent %r' % (
            label, sorted(map(sorted, got_edges - want_edges)), sorted(map(sorted, want_edges - got_edges))))
    got_bonds = sorted((sorted(i.atoms), list(i.parameters)) for i in out.interactions.get('bonds', []))
    if got_bonds != sorted((sorted(pair), params) for pair, params in want_bonds):
        raise Violation('mod-interactions', '%s: bond interactions %r, expected one per placed modification: %r' % (
            label, got_bonds, sorted((sorted(pair), params) for pair, params in want_bonds)))
    other_inter = {k: v for k, v in out.interactions.items() if k != 'bonds' and v}
    if other_inter:
        raise Violation('mod-interactions', '%s: unexpected interactions %r' % (label, sorted(other_inter)))
    classes = ['via-' + case['via']]
    apart = False
    for name in ('P', 'Q'):
        where = [i for i, e in enumerate(layout) if name in e['mods']]
        if any(b - a > 1 for a, b in zip(where, where[1:])):
            apart = True
    if apart:
        classes.append('same-modification-in-separate-groups')
    if any(len(e['mods']) == 2 for e in layout):
        classes.append('two-modifications-on-one-residue')
    if has_r:
        classes.append('modification-without-mapping')
    if any(e['mods'] and layout[i + 1]['mods'] for i, e in enumerate(layout[:-1])):
        classes.append('neighbouring-modified-residues')
    if xlink:
        classes.append('bond-between-two-modification-placements')
    if any('W' in e['mods'] for e in layout):
        classes.append('modification-spanning-two-residues')
    if shared_anchor:
        classes.append('two-modifications-share-an-anchor-atom')
    if n_z and case.get('z_renamed'):
        classes.append('block-fits-through-_old_atomname-only')
    return Outcome(classes, apart)


PARTS = [
    Part('modification-mappings', _run, strategy=_strategy, examples={'quick': 800, 'thorough': 20000},
         floors={'same-modification-in-separate-groups': 0.15, 'two-modifications-on-one-residue': 0.1,
                 'modification-without-mapping': 0.02, 'neighbouring-modified-residues': 0.2}),
]
