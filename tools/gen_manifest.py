#!/usr/bin/env python3
"""Regenerates /verif/MANIFEST.json from the table below (kept valid at all times)."""
import json
import os

HERE = os.path.dirname(os.path.dirname(os.path.abspath(__file__)))

CHECKS = {
    'C08': dict(
        category='exploration',
        text=('Generated multisets of log records and -maxwarn specification lists are evaluated by the real '
              'ignore_warnings_and_count (records emitted through a real CountingHandler) and compared with the closed '
              'formula of the statement, plus its stated consequences (never negative, errors never waived, absent types '
              'irrelevant, monotone); a finite sub-domain (3 types x counts x errors x all spec sets) is enumerated '
              'completely; the CLI maxwarn() parser is round-tripped and fed malformed strings. Exploration is the right '
              'level: the domain is unbounded but the function is pure and cheap, so tens of thousands of cases per run '
              'plus an exhaustive core give high confidence.'),
        design_ref='DESIGN.md §2 C08',
        note='Trusted: the reference formula transcribed from the statement; the combination "same type waived by name and numeric" is only range-checked (statement leaves it unspecified).',
        technique='Hypothesis generated inputs vs. reference formula + metamorphic consequences; exhaustive enumeration of a finite sub-domain'),
    'C12': dict(
        category='exploration',
        text=('Model-based history testing: generated sequences of editing operations (single/bulk/implicit node addition, '
              'removal, interaction add/replace/remove, copy, subgraph, merge_molecule, Block.to_molecule, MergeAllMolecules, '
              'MergeChains) are applied to real Molecules in several slots and to a pure-Python model; every slot is compared with '
              'its model after every step (so edits of copies that leak into the source are seen), the no-dangling-reference '
              'invariant is asserted, and the merge post-condition (fresh keys, nothing overwritten, uniform resid/charge-group '
              'shift) is checked from the returned correspondence. Histories are the quantifier, so stateful generation is the '
              'right tool; it found and now guards the stale max_node defect (F1).'),
        design_ref='DESIGN.md §2 C12',
        note='Trusted: the pure-Python model of networkx node/edge semantics and of the documented Molecule operations. Bulk removal with one-shot iterators, self-merges and non-numeric keys are outside the generated domain.',
        technique='Hypothesis model-based (stateful) operation-sequence generation vs. a reference model, invariant after every step'),
    'C16': dict(
        category='exploration',
        text=('Round trip write_pdb->read_pdb and write_gro->read_gro on generated systems (1-6 molecules; names, residue numbers, '
              'chains, insertion codes and coordinates drawn at, below and beyond every column width; bond patterns up to degree 9; '
              'molecules tiled to cross 10 000 and, in the thorough tier, 100 000 atoms). Every field read back must equal the value '
              'written or, on overflow, a truncation of that field only; line lengths and separator columns are checked on the text; '
              'within five-digit serials the CONECT bond set and the TER partition must be identical. Exploration with constructed '
              'boundary values is the right level because the failures live exactly at field-width boundaries.'),
        design_ref='DESIGN.md §2 C16',
        note='Trusted: the per-field expectation (fits => equal, else prefix/suffix truncation). Names contain a letter in every possible truncation; altloc unset; atom ids absent or monotone with node order; no inter-molecule bonds.',
        technique='Hypothesis round-trip testing with boundary-value construction and fixed-column text checks'),
    'C17': dict(
        category='exploration',
        text=('Generated systems with selected and unselected molecules in every order (selection by protein residue names as the '
              'CLI does, or by a flag), residues of 1-3 atoms with sparse keys and interleaved atoms, and sequences of every '
              'documented length class are run through AnnotateResidues.run_system; the expected per-atom value is computed from '
              'the documented repeat rules, unselected molecules must be byte-for-byte untouched, and length mismatches must raise '
              'without partial assignment. DSSP->Martini translation is compared with a run-length reference for every string '
              'over {H,C} up to length 12/16 (exhaustive) and for random strings over the full alphabet, directly and through '
              'AnnotateMartiniSecondaryStructures.'),
        design_ref='DESIGN.md §2 C17',
        note='Trusted: the run-length reference for the helix rules and the rule order (per-molecule repeat, single element, total). Node keys increase with insertion order.',
        technique='Hypothesis generated systems vs. reference assignment; exhaustive enumeration of DSSP strings vs. run-length reference'),
    'C15': dict(
        category='exploration',
        text=('Generated molecules (residues x beads on a grid, chains, gaps, cross-links), selectors, domain criteria and parameter '
              'sets are run through ApplyRubberBand.run_molecule and compared pair by pair with an O(n^2) reference written from the '
              'statement (own residue graph and BFS, own distances, own decay formula): no bond missing, none extra, exactly one per '
              'pair, length = distance rounded to 5 decimals, force constant within 1e-9 relative. Upper bound and minimum force are '
              'constructed on actual pair values x (1 +- 1e-7); exact ties may go either way. A rigidly moved, re-keyed and re-ordered '
              'presentation must give the same network; NaN coordinates must give one warning and no network.'),
        design_ref='DESIGN.md §2 C15',
        note='Trusted: the reference formula min(base, base*exp(-a(d-lower)^p)); fractional powers only with lower = 0; all selected atoms have positions.',
        technique='Hypothesis generated inputs vs. O(n^2) reference implementation + metamorphic rigid-motion/reordering relation'),
    'C13': dict(
        category='exploration',
        text=('Model-based round trip for .ff files: an abstract file (blocks, links, modifications, macros, variables, citations in '
              'any order and number; sub-sections in any order and repeated; #meta lines, per-line metas, versions, !removal sections, '
              'patterns, features, non-edges, molmeta, edges; order by prefix, attribute or both) is serialised by the harness with '
              'random legal layout, loaded with read_ff and compared item by item, in file order and "exactly once", with the '
              'expectation computed from the abstract model. Each listed fault (unknown section, undefined / out-of-range block atom, '
              'duplicate atom, unbalanced braces, prefix/order contradiction, too few / too many atoms before "--", too few tokens) is '
              'injected at generated positions and must be rejected. Literal examples of the documented grammar must load. '
              'The same kind of model-based round trip plus fault injection covers Gromacs-style .itp files (moleculetypes, '
              'interaction sections, #ifdef/#ifndef/#else/#endif, 17 fault kinds), backward-style .map files (multiplicity and ! '
              'weights, from/to lists, ignored sections, read_mapping_directory over a temporary tree) and .mapping files (block and '
              'modification mappings, shorthand / longhand block specs, from/to nodes and edges, weights, reference atoms; 15 fault '
              'kinds). This found and now guards F3, F11, F12, F14, F28-F31; F13 (SETTLE) and F32 (documented .map example) are open '
              'known findings.'),
        design_ref='DESIGN.md §2 C13',
        note='Trusted: the expectations computed from the abstract models (written from doc/source/file_formats.rst and the parser docstrings): pbt/c13_ffmodel.py, c13_itp.py, c13_map.py, c13_mapping.py. Unique block/modification/molecule names; consistent per-atom attributes; see ASSUMPTIONS in evidence.',
        technique='Hypothesis grammar-based generation + model-based round trip; fault injection at generated positions'),
    'C02': dict(
        category='exploration',
        text=('Generated molecules (1-25 atoms; sparse, negative, unordered node keys; atom ids absent, permuted, sparse or partial; '
              'charge/mass present or not incl. exponent-form values; a dozen interaction sections incl. impropers, exclusions, '
              'virtual_sitesn and custom ones; version / ifdef / ifndef / group / comment metas; pre/post lines; defines) are written '
              'with write_molecule_itp and parsed by an independent ITP reader (no vermouth import). Atoms must be numbered 1..N in '
              'model order and equal fieldwise; the multiset of interactions per (section, guard, node keys, parameters, comment) must '
              'equal memory - nothing dropped, duplicated or re-attached. A weaker differential against the repository reader and a '
              'contract part (documented ValueErrors) complete it.'),
        design_ref='DESIGN.md §2 C02; notes/C02.md',
        note='Trusted: the independent reader pbt/c02_ref_itp.py. Mass-without-charge and repeated post_section_lines are counted, not judged (outside the statement).',
        technique='Hypothesis generated molecules, round trip through an independent reader, multiset comparison'),
    'C05': dict(
        category='exploration',
        text=('Toy force fields with 1-6 generated links (attributes incl. Choice / NotDefinedOrNot, every order prefix and explicit '
              'orders, edges, non-edges, patterns, molmeta, features, effectors, removals, replace incl. node deletion, versions, '
              'overriding links), written as .ff text (parsed by read_ff) or built as objects, applied with DoLinks to molecules of '
              '2-7 residues with gaps, repeats, branches and cycles; compared with a brute-force reference interpreter (all injective '
              'assignments, conditions from the documentation): placements of match_link, final interactions as multisets, node '
              'attributes, node set, and no unjustified interaction. The order relation table is enumerated exhaustively; the shipped '
              'martini3001/martini22 link sets are checked on generated protein-like molecules.'),
        design_ref='DESIGN.md §2 C05; notes/C05.md',
        note='Trusted: the reference interpreter pbt/c05_ref_links.py. Situations the documentation leaves undefined (placements of one link that conflict with each other) are detected and only that interaction type is skipped.',
        technique='Hypothesis generated links and molecules vs. brute-force reference interpreter; exhaustive enumeration of the order table'),
    'C09': dict(
        category='exploration',
        text=('Generated particles (graphs of 0-8 atoms on a 1e-3 nm grid, weights incl. zeros, shared atoms, missing coordinates as '
              'absent key or None, mass weighting, particles without graph) are run through do_average_bead / DoAverageBead and '
              'compared with the exact rational weighted mean; NaN exactly when the positioned weights sum to zero; bounding box; '
              'metamorphic exact rotations + translations, swapping missing markers, removing or re-weighting unpositioned atoms. '
              'An end-to-end part runs real do_mapping first so that the weights come from real bookkeeping.'),
        design_ref='DESIGN.md §2 C09; notes/C09.md',
        note='Trusted: Fraction arithmetic on grid coordinates. Weight sums below 1e-7 but non-zero are outside the generated domain (the code treats them as zero).',
        technique='Hypothesis generated inputs vs. exact-arithmetic oracle + metamorphic relations'),
    'C18': dict(
        category='exploration',
        text=('One merged CG molecule per case (1-3 chains, 3-20 residues, overlapping input resids between chains, gaps, backbone '
              'breaks, cross-links, backbone distances constructed on the cut-offs x (1 +- 1e-7)) and a contact list drawn from every '
              'kind (symmetric, one-directional, self, absent residue / chain, merged instead of input resid), passed in memory or '
              'through a server-format contact-map file, run through GoPipeline.run_system with the keywords the CLI passes. Oracle '
              'from the statement with own residue graph, BFS and distances: exactly one site per backbone bead, appended after all '
              'atoms, co-located, identity copied, zero mass/charge, unique type, one virtual_sitesn, one atom type; nonbond_params and '
              'exclusions exactly for the accepted contact set, sigma = d/2^(1/6), epsilon as requested; ties either way. A second '
              'part draws molecule names that are prefixes of bead types (found F16).'),
        design_ref='DESIGN.md §2 C18; notes/C18.md',
        note='Trusted: the reference contact filter. One molecule per system (GoPipeline always merges first).',
        technique='Hypothesis generated inputs with threshold construction vs. reference model (two-directional set comparison)'),
    'C14': dict(
        category='exploration',
        text=('Toy force fields (residue templates with unique atom names, 2-5 modifications grown to include sub-patterns of one '
              'another, shared anchors, two-residue spans, replace attributes incl. renames) are written as .ff text and parsed by '
              'read_ff; molecules of 1-5 residues get ground-truth attachments plus, in ~40 %, one perturbation (unexplained atom, '
              'extra bond, wrong element, missing atom). Flags are set directly or by the real RepairGraph. After '
              'CanonicalizeModifications an own induced-subgraph matcher and exact-cover search must find a cover consistent with the '
              'resulting names, replace changes and residue labels; only flagged atoms may vanish, and a warning is logged iff '
              'something was removed; unperturbed ordinary shapes must be identified completely.'),
        design_ref='DESIGN.md §2 C14, §7; notes/C14.md',
        note='Trusted: the reference matcher / exact-cover search. At most 6 flagged atoms per case (the implementation search is factorial on unidentifiable groups). Two structural shapes and rename-ambiguous covers are counted, not judged (statement allows removal with warning).',
        technique='Hypothesis generated force fields and molecules with known ground truth; validity predicate via independent exact-cover search'),
    'C10': dict(
        category='exploration',
        text=('Generated systems (1-3 input molecules; residues known to a toy force field, unknown, or with duplicated atom names; '
              'residue identities re-used across input molecules; all elements of the radius table plus elements without radius; '
              'pre-existing bonds; atoms placed at threshold x (1 +- 1e-6) from earlier atoms; six fudge factors; name/distance modes) '
              'run through MakeBonds and compared with an O(n^2) reference written from the statement with an independently '
              'transcribed Bondi table: no bond missing, none extra (each extra bond is attributed to the rule it breaks), edge '
              'distances right, atoms preserved exactly once, residues never split, never fused across input molecules, residue '
              'graph of every output molecule connected. Found and now guards F6, F7, F18.'),
        design_ref='DESIGN.md §2 C10',
        note='Trusted: the reference criteria and the independently transcribed radius table (20 elements; all others have no radius). Ties within 1e-9 relative go either way.',
        technique='Hypothesis generated inputs with threshold construction vs. O(n^2) reference (two-directional edge-set comparison)'),
    'C06': dict(
        category='exploration',
        text=('ISMAGS is compared with networkx VF2 (node-induced) as an independent reference: every yielded mapping is checked '
              'definitionally (soundness); symmetry=False must yield the full isomorphism set exactly once; symmetry=True must hit '
              'every orbit of that set under the pattern automorphism group exactly once (orbit marking); largest_common_subgraph is '
              'compared with a descending subset enumeration (size, soundness, completeness / closure under the automorphism group). '
              'Domains: ALL pairs of labelled graphs with pattern <= 4 nodes and host <= 4 (quick) / 5 (thorough) nodes, uncoloured '
              'and 2-coloured (exhaustive); random G(n,p) with node/edge colours and arbitrary keys; 14 symmetric families of 6-12 '
              'nodes (cycles, wheels, prisms, Petersen, stars, trees, K_mn, doubled trees...) under relabelling. Found and now guards '
              'F19 (lost symmetries for patterns of 8+ nodes).'),
        design_ref='DESIGN.md §2 C06; notes/C06.md',
        note='Trusted: networkx VF2 as reference; caps |I| <= 6000 and 3000 LCS maxima (skipped cases counted, < 1 %).',
        technique='Differential testing against networkx VF2 with orbit bookkeeping; exhaustive enumeration of all small graph pairs + Hypothesis families'),
    'C11': dict(
        category='exploration',
        text=('Metamorphic testing of the complete pipeline through the real entry() of bin/martinize2 (run in long-lived server '
              'subprocesses that own PYTHONHASHSEED): a protein fragment cut from 11 test structures is processed as is under hash '
              'seed 0 and again after a presentation change (atoms permuted inside their residues, hydrogens renamed by scheme or to '
              'unique meaningless names, one of the 24 exact rotations plus a grid translation - exact at the text level -, hash seed '
              '0/1/4242) with the same generated options (-ff, -elastic with bounds and units, -p, -ss, -dssp, -cys, -nt, -noscfix, '
              '-resid). The written .top/.itp/.pdb files are parsed with independent readers and must agree: same molecules, particles, '
              'interactions as multisets with numeric tolerance, coordinates related by the same motion; only elastic bonds whose '
              'length sits on the upper bound may differ.'),
        design_ref='DESIGN.md §2 C11',
        note='Trusted: the independent ITP reader; memoised force-field loading per server process. Rotations are restricted to the 24 axis permutations (exact in PDB text), so a dependence that is invariant under axis permutations (e.g. an L1 norm) would not be seen. Polarizable force fields not generated.',
        technique='Metamorphic testing (paired pipeline runs) with Hypothesis-generated fragments, transforms and options'),
    'C03': dict(
        category='exploration',
        text=('Generated systems (1-8 molecules from 1-4 templates: identical chains adjacent or interleaved, instances differing only '
              'in ignored attributes, near-duplicates differing in one non-ignored detail; sparse keys, permuted node order, atom ids '
              'absent or permuted; deduplication on/off) go through NameMolType, write_gmx_topology, write_pdb and write_gro; the '
              '.top, every .itp (independent reader), PDB and GRO (own fixed-column readers) are parsed back: [ molecules ] must expand '
              'to the molecule sequence, each molecule type written and included exactly once, the k-th coordinate record of every '
              'molecule must be the k-th ITP atom, and molecules share a name only if their written ITP text is identical (and do '
              'share it when they differ only in ignored attributes). A further part inserts SortMoleculeAtoms where the CLI has it.'),
        design_ref='DESIGN.md §2 C03; notes/C03.md',
        note='Trusted: the independent readers. Integers below 100000 (utils.are_different compares ints with a relative tolerance). F21 is an open known finding (cli-order part).',
        technique='Hypothesis generated systems, cross-file consistency oracle over independently parsed outputs'),
    'C07': dict(
        category='fault_enumeration',
        text=('(a) Generated histories of deferred opens / writes / re-opens / chdir / finalise / discard over pre-existing files and '
              'occupied backup slots are interpreted against a directory model; the tree must equal the model after every step. '
              '(b) For every history ending in finalise, every filesystem call made by the writer during finalisation is failed in '
              'turn (before its effect, after its effect, torn write) on a fresh directory - an exhaustive enumeration of the crash '
              'points of that history - and every pre-existing file must survive byte-identical under its own or a backup name. '
              '(c) Every library writer (PDB, GRO, topology + ITPs, atom types, non-bonded parameters, DSSP save file, contact map) is '
              'called with default arguments: nothing on disk before finalise, exact content after, nothing ever after discard. '
              '(d) The real CLI is run as a subprocess with generated warning-producing ingredients and -maxwarn specifications; its '
              'stderr is parsed, the C08 reference decides the leftover, and exit code, new files, backups and byte-identity of the '
              'directory must agree. Fault enumeration is the right level for the crash-point quantifier; the rest is exploration.'),
        design_ref='DESIGN.md §2 C07; notes/C07.md',
        note='Trusted: the directory model; harness-side proxies for shutil/os/open inside vermouth.file_writer. Not reached: power loss inside one write(), concurrent writers. 12 CLI runs in the quick tier.',
        technique='Model-based history generation + exhaustive fault injection at every filesystem call of the finalisation; CLI differential against the C08 reference'),
    'C19': dict(
        category='exploration',
        text=('spec-roundtrip: residue specifications generated from components by the documented grammar (incl. names ending in '
              'digits with #, nter/cter, missing parts) must parse back to the same components. annotate: systems of 1-4 molecules '
              'with branched residue graphs, non-monotone residue numbers, insertion codes, digit-suffixed names, identical '
              '(chain, resid) in several molecules, and 0-4 mutation / modification requests each (existing residues with any '
              'subset of parts, perturbed in one part, termini, matching nothing, unknown targets) against an own matcher written '
              'from the statement: per-atom request lists on exactly the matching residues, NameError for unknown targets, a warning '
              'for exactly the requests that match nowhere. repair: charmm peptides with requests, AnnotateMutMod + RepairGraph, '
              'exact atom names/bonds of the requested block, old side chain gone, one residue name.'),
        design_ref='DESIGN.md §2 C19; notes/C19.md',
        note='Trusted: the reference matcher. Open known findings F25 (terminus request with number) and F26 (backbone N lost for a few mutation pairs) are excluded by bucket. Hydrogens stripped on mutated residues in the repair part (LCS cost).',
        technique='Hypothesis round trip of the specification grammar; generated systems and requests vs. reference matcher; real-data repair checks'),
    'C01': dict(
        category='exploration',
        text=('Toy force-field pairs with generated mappings (one-to-one, many-to-one, shared atoms, zero and non-unit weights, '
              'particles built from no atom, unmapped hydrogens / heavy atoms, two-residue mappings built with MappingBuilder, a second '
              'mapping for the same residue type that overlaps or splits it, reference atoms) on residue trees of 1-8 residues with '
              'cross links, five residue-numbering schemes, four node-key schemes, missing atoms / broken bonds; run through do_mapping '
              '/ DoMapping and compared with a plain-Python reference that finds placements by name (no Mapping.map, VF2, ISMAGS or '
              'merge_molecule) and predicts bead order, attributes, consecutive resids, _old_resid, graph, mapping_weights, block edges, '
              'inter-placement edges, interactions, and both warnings in both directions. A second part maps random charmm peptides '
              '(chain breaks, disulfide, missing atom) to martini3001 with the shipped mappings and the CLI arguments.'),
        design_ref='DESIGN.md §2 C01; notes/C01.md',
        note='Trusted: the reference pbt/c01_ref_mapping.py. Modification mappings (apply_mod_mapping) are not exercised. Cases with more than 24 placements are skipped (1-3 %).',
        technique='Hypothesis generated mappings and molecules vs. independent reference implementation (two-directional, incl. warnings)'),
    'C04': dict(
        category='exploration',
        text=('Every eligible block of the shipped charmm, amber and gromos force fields is presented to RepairGraph in generated '
              'presentations: names replaced (all / hydrogens / heavy / a few; fresh, swapped round, element-only, absent, empty), node '
              'order permuted, sparse keys, up to 40 % of atoms removed, 1-3 extra atoms of a foreign or the same element (possibly '
              'carrying a block atom name), optionally a second residue bonded on. Validity predicate: names unique, the name map is an '
              'element-preserving isomorphism onto the complete block, rebuilt atoms bonded as in the block and nothing more, flagged '
              'count = input atoms - maximum common induced subgraph (by construction, or networkx VF2 over subsets), input bonds '
              'unchanged; two presentations of one residue agree. Blocks are enumerated, presentations generated.'),
        design_ref='DESIGN.md §2 C04; notes/C04.md',
        note='Trusted: networkx VF2 for the maximum common subgraph; measured size bounds per presentation kind because ISMAGS LCS is exponential without name guidance (full scrambling only up to 14/15 atoms; 53 slow charmm blocks excluded by a static list). Two-letter elements and requested mutations (p6) not covered.',
        technique='Enumeration of shipped blocks x Hypothesis generated presentations; validity predicate with networkx reference; metamorphic pair comparison'),
}

NOT_YET = 'check not built yet in this round (planned, see DESIGN.md §2)'


def main():
    props = [json.loads(l)['id'] for l in open(os.path.join(HERE, 'properties.jsonl'))]
    checks = []
    for pid in props:
        if pid not in CHECKS:
            continue
        c = CHECKS[pid]
        checks.append({
            'property_id': pid,
            'quick_cmd': '/venv/bin/python vcheck.py %s --tier quick' % pid,
            'thorough_cmd': '/venv/bin/python vcheck.py %s --tier thorough' % pid,
            'evidence_file': 'evidence/%s.json' % pid,
            'replay_cmd_template': '/venv/bin/python vcheck.py %s --replay {path}' % pid,
            'engine': 'vcheck',
            'level_claimed': {'category': c['category'], 'text': c['text'], 'design_ref': c['design_ref']},
            'level_note': c['note'],
            'technique': c['technique'],
        })
    manifest = {
        'version': 1,
        'setup_cmd': ('/venv/bin/python -c "import hypothesis" 2>/dev/null || '
                      '/venv/bin/pip install --no-index --find-links /opt/veriftools/wheels hypothesis'),
        'hooks': {
            'guard': 'VERMOUTH_VERIF',
            'enable': 'no hooks are needed: every observation point is a public return value, file, log record or exit code; the guard name is reserved and unused',
            'baseline_off_cmd': 'cd /repo && /venv/bin/python -m pytest -ra -q -p no:cacheprovider --timeout=900 --continue-on-collection-errors',
            'source_commits': [],
            'add_only': True,
        },
        'engines': [{
            'name': 'vcheck',
            'path': 'vcheck.py',
            'serves_properties': [c['property_id'] for c in checks],
            'kind_free_text': ('Hypothesis-driven property-based testing (sharded over 16 processes, seeds derived from VERIF_SEED), '
                               'exhaustive enumeration of finite sub-domains, fault enumeration, JSON case descriptions with '
                               'Hypothesis-free replay'),
        }],
        'checks': checks,
        'notes': ('All checks import vermouth from /repo working tree (VERIF_REPO overrides for scratch copies). '
                  'exit 0 ok / exit 1 VIOLATION / exit 2 harness error. known_findings.json lists fixed and open findings.'),
        'not_applicable': [{'property_id': pid, 'reason': NOT_YET} for pid in props if pid not in CHECKS],
    }
    with open(os.path.join(HERE, 'MANIFEST.json'), 'w') as fh:
        json.dump(manifest, fh, indent=1)
    print('wrote MANIFEST.json with %d checks' % len(checks))


if __name__ == '__main__':
    main()
