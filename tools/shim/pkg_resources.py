"""Minimal stand-in so that vermouth/tests/datafiles.py can be imported (dev-time only, not used by checks)."""
import importlib
import os


def resource_filename(package, name):
    mod = importlib.import_module(package)
    return os.path.join(os.path.dirname(mod.__file__), name)
