#!/bin/bash
# Runs the thorough tier of the given (default: all registered) checks one after the other; prints one summary line each.
cd "$(dirname "$0")/.."
IDS="$@"
if [ -z "$IDS" ]; then IDS=$(python3 -c "import json;print(' '.join(c['property_id'] for c in json.load(open('MANIFEST.json'))['checks']))"); fi
for id in $IDS; do
  start=$(date +%s)
  /venv/bin/python vcheck.py $id --tier thorough --no-evidence > /tmp/thorough_$id.log 2>&1
  rc=$?
  echo "$id exit=$rc wall=$(( $(date +%s) - start ))s $(grep -E '^OK|VIOLATION|harness error' /tmp/thorough_$id.log | head -3 | tr '\n' ' ' | cut -c1-300)"
done
