#!/bin/bash
# usage: tools/mutant.sh <patch-file> <PROP> [-R] [extra vcheck args]
# Applies a patch to a scratch copy of /repo (outside /repo and /verif), runs the quick check against it, removes the copy.
set -u
PATCH=$(readlink -f "$1"); PROP=$2; shift 2
REV=""
if [ "${1:-}" = "-R" ]; then REV="-R"; shift; fi
SCR=$(mktemp -d /tmp/mut_${PROP}_XXXXXX)
rsync -a --exclude .git --exclude __pycache__ /repo/ "$SCR/"
( cd "$SCR" && patch -p1 $REV --quiet < "$PATCH" ) || { echo "PATCH FAILED"; rm -rf "$SCR"; exit 3; }
cd /verif
VERIF_REPO="$SCR" /venv/bin/python vcheck.py "$PROP" --tier quick --no-evidence "$@" > "$SCR.log" 2>&1
RC=$?
grep -E "VIOLATION|harness error|^OK" "$SCR.log" | head -5
grep -B1 "VIOLATION" "$SCR.log" | grep -v VIOLATION | head -3 | cut -c1-300
rm -rf "$SCR" "$SCR.log"
# replays written during mutant runs are not kept
echo "exit=$RC"
exit $RC
