#!/usr/bin/env python3
"""usage: mkmut.py <name> <repo-relative-file> <old> <new>   -> writes mutants/<name>.patch (exactly one occurrence must match)"""
import difflib, sys, os
name, rel, old, new = sys.argv[1:5]
old = old.encode().decode('unicode_escape'); new = new.encode().decode('unicode_escape')
src = open(os.path.join('/repo', rel), newline='').read()
if '\r\n' in src:
    old = old.replace('\n', '\r\n'); new = new.replace('\n', '\r\n')
assert src.count(old) == 1, 'pattern occurs %d times' % src.count(old)
dst = src.replace(old, new)
diff = ''.join(difflib.unified_diff(src.splitlines(True), dst.splitlines(True), 'a/' + rel, 'b/' + rel))
open(os.path.join('/verif/mutants', name + '.patch'), 'w', newline='').write(diff)
print('wrote', name)
