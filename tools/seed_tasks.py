#!/usr/bin/env python3
"""
Prepares scratch worktrees and task files for a round of independent seeded changes.

usage: seed_tasks.py <round> <PROP> [<PROP> ...]     e.g. seed_tasks.py 3 C01 C02

For each property it creates the worktree /tmp/seed<round>_<PROP> (detached, at /repo's HEAD) and writes SEED_TASK.md there.
The task file contains ONLY the text of the property (title, statement, quantifier) and, so that a new round does not
repeat an old one, the summaries of the changes earlier rounds produced for it (those are descriptions of changes to the
repository, not of anything in /verif).  Nothing from /verif's checks is given to the agents.
"""
import glob
import json
import os
import subprocess
import sys

HERE = os.path.dirname(os.path.dirname(os.path.abspath(__file__)))

TEMPLATE = """You are helping to evaluate a verification effort by acting as a realistic source of regressions. You work ONLY inside your own scratch git worktree `{wt}` (a checkout of the Python project vermouth / martinize2: a library and CLI converting atomistic molecular structures into coarse-grained topologies). Do not read or write anything under /verif or /repo, do not commit, do not touch other /tmp/seed* directories. NEVER use `git stash` (the stash is shared between all worktrees of the repository and other people work in sibling worktrees at the same time): to test on a clean tree use `git diff > /tmp/<your-dir>/x.diff; git checkout -- .; ...; git apply x.diff`.

The project is importable from your worktree with `PYTHONPATH={wt} /venv/bin/python ...` (check once that `import vermouth; print(vermouth.__file__)` points into `{wt}`; the system has an editable install pointing elsewhere, PYTHONPATH takes precedence). Every shell command prints a harmless conda WARNING line first. No network.

This semantic property of the software is supposed to hold:

  Title: {title}
  Statement: {statement}
  Quantified over: {quant}

Your task: produce TWO different, realistic changes to the source code (different sites or mechanisms; each the kind of slip a maintainer could make in a refactor/optimisation/bug-fix) that each BREAK this property while the code still imports and the existing test suite still passes. Prefer changes that need something specific to manifest (an unusual input, a particular ordering or numbering, a multi-step sequence of operations, a boundary value, two cooperating sites that each look fine alone) rather than ones ordinary use would expose at once. Not allowed: changes to tests, changes that make the code crash or hang on ordinary inputs, changes outside the behaviour this property is about.

The existing suite: `cd {wt} && /venv/bin/python -m pytest -q -p no:cacheprovider --timeout=900 --continue-on-collection-errors` must still report `2096 passed` (14 modules fail to collect offline for an unrelated reason - that is expected and the same with or without your change; run the directly related test files first, the full suite at the end; it takes 1-3 minutes).

For each change i in 1, 2 deliver in `{wt}/SEED/<i>/`:
  * `patch.diff` - `git diff` of ONLY that change relative to the clean worktree (apply-able with `git apply`); restore the worktree to clean (`git checkout -- .`) after producing each patch so the two patches are independent;
  * `demo.py` - a small stand-alone program (run as `PYTHONPATH=<tree> /venv/bin/python demo.py`) that exits 0 on the clean tree and exits non-zero (assertion) with the change applied, demonstrating the property violation at the level of public API / observable output;
  * `meta.json` - {{"property": "{prop}", "summary": "...what the change does...", "needs": "...what specific input/sequence/condition is needed for it to manifest...", "files": [...], "suite": "2096 passed"}}.
Verify yourself for each change: demo passes on clean tree, fails with patch; full suite still 2096 passed with the patch. Finish with a short report listing the two changes, what each needs to manifest, and the verification you ran. Leave the worktree clean except for the SEED directory.

{previous}
Also: if hypothesis stores a failing example of the unrelated flaky tests vermouth/tests/test_logging.py::test_style_* in a `.hypothesis/` directory of the worktree, delete that directory and re-run; those tests fail at random on the clean tree too.
"""


def main():
    rnd = sys.argv[1]
    props = {}
    for line in open(os.path.join(HERE, 'properties.jsonl')):
        d = json.loads(line)
        props[d['id']] = d
    for prop in sys.argv[2:]:
        d = props[prop]
        wt = '/tmp/seed%s_%s' % (rnd, prop)
        if not os.path.exists(wt):
            subprocess.run(['git', '-C', '/repo', 'worktree', 'add', '--detach', wt, 'HEAD'], check=True,
                           stdout=subprocess.DEVNULL, stderr=subprocess.DEVNULL)
        earlier = []
        for meta_path in sorted(glob.glob(os.path.join(HERE, 'seeded', prop + '_*', 'meta.json'))):
            meta = json.load(open(meta_path))
            if not meta.get('confirmed'):
                continue
            earlier.append('- %s (needs: %s)' % (meta.get('summary', '')[:600], meta.get('needs', '')[:400]))
        previous = ''
        if earlier:
            previous = ('\nIMPORTANT - other people already produced the following changes for this property; yours must be DIFFERENT in '
                        'site and mechanism (do not touch the same function in the same way, do not break the same sub-claim of the '
                        'statement through the same kind of input). Look for other sub-claims of the statement, other code paths, other '
                        'callers, interactions between two modules:\n' + '\n'.join(earlier) + '\n')
        text = TEMPLATE.format(wt=wt, title=d['title'], statement=d['statement'], quant=d['quantifier']['text'], prop=prop,
                               previous=previous)
        open(os.path.join(wt, 'SEED_TASK.md'), 'w').write(text)
        print(wt, len(earlier), 'earlier changes listed')


if __name__ == '__main__':
    main()
