#!/usr/bin/env python3
"""
usage: seed_verify.py <PROP> <src-dir-with-patch.diff/demo.py/meta.json> <seed-id> [--skip-suite] [--tier quick|thorough]

Confirms a seeded change in a scratch copy of /repo (outside /repo and /verif), runs the property's check against it and
stores everything under /verif/seeded/<seed-id>/ with the results recorded in meta.json.  The scratch copy is removed.
"""
import json
import os
import re
import shutil
import subprocess
import sys
import tempfile
import time


def sh(cmd, cwd=None, env=None, timeout=3600):
    t0 = time.time()
    proc = subprocess.run(cmd, shell=True, cwd=cwd, env=env, stdout=subprocess.PIPE, stderr=subprocess.STDOUT, text=True, timeout=timeout)
    return proc.returncode, proc.stdout, time.time() - t0


def main():
    prop, src, seed_id = sys.argv[1:4]
    skip_suite = '--skip-suite' in sys.argv
    tier = 'quick'
    if '--tier' in sys.argv:
        tier = sys.argv[sys.argv.index('--tier') + 1]
    dest = os.path.join('/verif/seeded', seed_id)
    os.makedirs(dest, exist_ok=True)
    for name in ('patch.diff', 'demo.py', 'meta.json'):
        shutil.copy(os.path.join(src, name), os.path.join(dest, name))
    meta = json.load(open(os.path.join(dest, 'meta.json')))
    scratch = tempfile.mkdtemp(prefix='seedchk_%s_' % seed_id, dir='/tmp')
    ran = {}
    try:
        sh('rsync -a --exclude .git --exclude __pycache__ --exclude SEED --exclude SEED_TASK.md /repo/ %s/' % scratch)
        env = dict(os.environ, PYTHONPATH=scratch, PYTHONHASHSEED='0')
        rc, out, _ = sh('/venv/bin/python %s/demo.py' % dest, cwd=scratch, env=env)
        ran['demo_clean_exit'] = rc
        rc, out, _ = sh('patch -p1 < %s/patch.diff' % dest, cwd=scratch)
        ran['patch_applies'] = rc == 0
        if rc != 0:
            ran['patch_output'] = out[-500:]
        rc, out, _ = sh('/venv/bin/python %s/demo.py' % dest, cwd=scratch, env=env)
        ran['demo_patched_exit'] = rc
        ran['demo_patched_tail'] = out[-400:]
        if not skip_suite:
            rc, out, wall = sh('/venv/bin/python -m pytest -q -p no:cacheprovider --timeout=900 --continue-on-collection-errors 2>&1 | grep -E "^FAILED|passed|failed" | tail -8',
                               cwd=scratch, env=dict(os.environ, PYTHONPATH=scratch))
            m = re.search(r'(\d+) passed', out)
            f = re.search(r'(\d+) failed', out)
            ran['suite_passed'] = int(m.group(1)) if m else None
            ran['suite_failed'] = int(f.group(1)) if f else 0
            ran['suite_failed_tests'] = [l.split(' - ')[0][7:].strip() for l in out.split('\n') if l.startswith('FAILED')]
            # vermouth/tests/test_logging.py::test_style_adapter is a Hypothesis test that fails at random on the unchanged tree
            flaky = [t for t in ran['suite_failed_tests'] if 'test_logging.py::test_style_' in t]
            if flaky and len(flaky) == len(ran['suite_failed_tests']):
                ran['suite_note'] = 'only the known-flaky Hypothesis tests test_logging.py::test_style_* failed; counted as passing'
                ran['suite_passed'] += len(flaky)
                ran['suite_failed'] = 0
            ran['suite_wall_s'] = round(wall)
            if m is None:
                ran['suite_output_tail'] = out[-600:]
        cenv = dict(os.environ, VERIF_REPO=scratch)
        cenv.pop('PYTHONPATH', None)
        rc, out, wall = sh('/venv/bin/python vcheck.py %s --tier %s --no-evidence' % (prop, tier), cwd='/verif', env=cenv)
        ran['check_cmd'] = 'VERIF_REPO=<scratch copy with patch> /venv/bin/python vcheck.py %s --tier %s --no-evidence' % (prop, tier)
        ran['check_exit'] = rc
        ran['check_wall_s'] = round(wall)
        ran['check_buckets'] = [l.strip()[:300] for l in out.split('\n') if l.startswith('  ') and '/' in l.split(':')[0]][:6]
        ran['detected'] = rc == 1
    finally:
        shutil.rmtree(scratch, ignore_errors=True)
    meta['breaks_property'] = prop
    meta['verification'] = ran
    meta['confirmed'] = bool(ran.get('demo_clean_exit') == 0 and ran.get('demo_patched_exit') not in (0, None)
                             and ran.get('patch_applies') and (skip_suite or (ran.get('suite_passed') == 2096 and not ran.get('suite_failed'))))
    json.dump(meta, open(os.path.join(dest, 'meta.json'), 'w'), indent=1)
    print(json.dumps({'seed': seed_id, 'confirmed': meta['confirmed'], 'detected': ran.get('detected'),
                      'demo': (ran.get('demo_clean_exit'), ran.get('demo_patched_exit')), 'suite': ran.get('suite_passed'),
                      'buckets': ran.get('check_buckets')}, indent=1))


if __name__ == '__main__':
    main()
