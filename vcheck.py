#!/venv/bin/python
"""
Entry point: vcheck.py <ID> [--tier quick|thorough] [--replay FILE] [--shards N]

exit 0  property held on everything explored (KNOWN-FINDING lines allowed)
exit 1  violation(s): one line "VIOLATION property=<id> replay=<path>" each
exit 2  harness error (never a VIOLATION line)
"""
import argparse
import glob
import hashlib
import importlib
import json
import os
import sys
import time


def _reexec():
    if os.environ.get('PYTHONHASHSEED') != '0' or os.environ.get('VERIF_REEXEC') != '1':
        env = dict(os.environ)
        env['PYTHONHASHSEED'] = '0'
        env['VERIF_REEXEC'] = '1'
        env.setdefault('OMP_NUM_THREADS', '1')
        env.setdefault('OPENBLAS_NUM_THREADS', '1')
        env.setdefault('MKL_NUM_THREADS', '1')
        env['PYTHONDONTWRITEBYTECODE'] = '1'
        os.execve(sys.executable, [sys.executable] + sys.argv, env)


FLOOR_SLACK = 0.5


def main():
    _reexec()
    here = os.path.dirname(os.path.abspath(__file__))
    os.chdir(here)
    repo = os.path.abspath(os.environ.get('VERIF_REPO', '/repo'))
    os.environ['VERIF_REPO'] = repo
    sys.path.insert(0, here)
    sys.path.insert(0, repo)

    parser = argparse.ArgumentParser()
    parser.add_argument('prop')
    parser.add_argument('--tier', default=os.environ.get('VERIF_TIER', 'quick'),
                        choices=['quick', 'thorough'])
    parser.add_argument('--replay', default=None)
    parser.add_argument('--shards', type=int, default=int(os.environ.get('VERIF_SHARDS', '16')))
    parser.add_argument('--no-evidence', action='store_true')
    args = parser.parse_args()
    prop = args.prop.upper()
    try:
        seed = int(os.environ.get('VERIF_SEED', '1'))
    except ValueError:
        seed = 1

    import logging
    import warnings
    warnings.filterwarnings('ignore', category=SyntaxWarning)
    logging.getLogger('vermouth').propagate = False
    try:
        import vermouth  # noqa
        vpath = os.path.abspath(os.path.dirname(vermouth.__file__))
        if not vpath.startswith(repo + os.sep):
            print('harness error: vermouth imported from %s, expected under %s' % (vpath, repo))
            return 2
        from pbt import core
        module = importlib.import_module('pbt.checks.%s' % prop.lower())
    except Exception as exc:  # pylint: disable=broad-except
        import traceback
        traceback.print_exc()
        print('harness error: cannot import check %s: %s' % (prop, exc))
        return 2

    if args.replay:
        return do_replay(core, module, prop, args.replay)

    t0 = time.time()
    # --- regression tier: stored cases (fixed findings, earlier shrunk failures)
    violations = []   # (bucket, record)
    known = core.load_known(prop)
    known_open = [e for e in known if e.get('status') == 'open']
    if hasattr(module, 'preload'):
        module.preload()
    regress_files = sorted(glob.glob(os.path.join(here, 'regress', prop, '*.json')))
    open_replays = {}
    for e in known_open:
        paths = e.get('replay') or []
        for rp in ([paths] if isinstance(paths, str) else paths):
            open_replays[os.path.abspath(os.path.join(here, rp))] = e
    n_regress = 0
    known_lines = []
    for path in regress_files:
        with open(path) as fh:
            rec = json.load(fh)
        try:
            viol = core.replay_case(module, rec['part'], rec['case'])
        except core.HarnessError as exc:
            print('harness error in regression case %s: %s' % (path, exc))
            return 2
        n_regress += 1
        entry = open_replays.get(os.path.abspath(path))
        if entry is not None:
            if viol is not None:
                line = 'KNOWN-FINDING: property=%s %s: %s' % (prop, entry['id'], entry['what'])
                if line not in known_lines:
                    known_lines.append(line)
            else:
                print('note: known finding %s no longer reproduces on %s' % (entry['id'], os.path.basename(path)))
        elif rec.get('expect') == 'violation':
            # sensitivity self-test: a stored case that must be *rejected* by the oracle
            pass
        elif viol is not None:
            violations.append({'part': rec['part'], 'bucket': viol.bucket, 'message': viol.message,
                               'detail': viol.detail, 'case': rec['case'], 'from': path})

    try:
        results = core.run_check(module, args.tier, seed, nshards=args.shards)
    except Exception as exc:  # pylint: disable=broad-except
        import traceback
        traceback.print_exc()
        print('harness error: %s' % exc)
        return 2
    errors = [r for r in results if r.get('error')]
    if errors:
        for r in errors[:3]:
            print('harness error in part %s shard %s: %s' % (r['part'], r['shard'], r['error']))
        return 2

    # --- merge
    parts = {}
    for r in results:
        p = parts.setdefault(r['part'], {'evaluations': 0, 'hashes': set(), 'count': 0,
                                         'classes': {}, 'samples': [], 'excluded_known': {},
                                         'excluded_bucket': 0, 'failures': {}, 'exhaustive': False,
                                         'wall_cpu': 0.0, 'slowest': 0.0})
        p['evaluations'] += r['evaluations']
        p['hashes'] |= r['nontrivial_hashes']
        p['count'] += r['nontrivial_count']
        for k, v in r['classes'].items():
            p['classes'][k] = p['classes'].get(k, 0) + v
        if len(p['samples']) < 3:
            p['samples'].extend(r['samples'][:1])
        for k, v in r['excluded_known'].items():
            p['excluded_known'][k] = p['excluded_known'].get(k, 0) + v
        p['excluded_bucket'] += r['excluded_bucket']
        for b, f in r['failures'].items():
            old = p['failures'].get(b)
            if old is None or len(json.dumps(f['case'], default=str)) < len(json.dumps(old['case'], default=str)):
                p['failures'][b] = f
        p['exhaustive'] = p['exhaustive'] or r.get('exhaustive', False)
        p['wall_cpu'] += r['wall']
        p['slowest'] = max(p['slowest'], r.get('slowest', 0.0))

    for pname, p in parts.items():
        for f in p['failures'].values():
            violations.append(f)

    # --- floors: the generator must actually produce the interesting classes
    # The floors in the checks were set from a handful of seeds.  How often a class turns up varies more from seed to seed
    # than a binomial count would (the 16 shards are few, and related examples come in runs), so half the stated share is
    # what is enforced: still far above what a generator that has lost a class produces, and out of reach of an unlucky seed.
    floor_errors = []
    partobjs = {p.name: p for p in module.PARTS}
    for pname, p in parts.items():
        for cls, stated in partobjs[pname].floors.items():
            floor = FLOOR_SLACK * stated
            have = p['classes'].get(cls, 0)
            if p['evaluations'] and have < floor * p['evaluations']:
                floor_errors.append('%s/%s: class %r in %d of %d cases (< %.1f%%)' % (
                    prop, pname, cls, have, p['evaluations'], 100 * floor))

    # --- report
    out_paths = []
    seen = set()
    for f in violations:
        key = (f['part'], f['bucket'])
        if key in seen:
            continue
        seen.add(key)
        h = hashlib.sha1(('%s/%s' % key).encode()).hexdigest()[:12]
        rdir = os.path.join(here, 'replays', prop)
        os.makedirs(rdir, exist_ok=True)
        path = os.path.join(rdir, '%s.json' % h)
        with open(path, 'w') as fh:
            json.dump({'property': prop, 'part': f['part'], 'bucket': f['bucket'],
                       'message': f['message'], 'detail': f.get('detail'),
                       'case': f['case']}, fh, indent=1, default=str)
        out_paths.append((f, path))

    wall = time.time() - t0
    evaluations = sum(p['evaluations'] for p in parts.values()) + n_regress
    distinct_nt = sum(len(p['hashes']) + p['count'] for p in parts.values())
    samples = []
    for pname, p in parts.items():
        for s in p['samples'][:2]:
            samples.append({'part': pname, 'case': s})
    evidence = {
        'property_id': prop,
        'tier': args.tier,
        'seed': seed,
        'level': module.LEVEL,
        'coverage': {
            'evaluations': evaluations,
            'distinct_nontrivial': distinct_nt,
            'rule': module.RULE,
            'samples': samples,
            'exhaustive': any(p['exhaustive'] for p in parts.values()),
            'regression_cases_replayed': n_regress,
            'parts': {pname: {'evaluations': p['evaluations'],
                              'distinct_nontrivial': len(p['hashes']) + p['count'],
                              'classes': dict(sorted(p['classes'].items())),
                              'excluded_known': p['excluded_known'],
                              'excluded_same_bucket': p['excluded_bucket'],
                              'exhaustive': p['exhaustive'],
                              'cpu_s': round(p['wall_cpu'], 1),
                              'slowest_case_s': round(p['slowest'], 2)}
                      for pname, p in parts.items()},
            'buckets': [{'part': f['part'], 'bucket': f['bucket'], 'message': f['message'][:500]}
                        for f, _ in out_paths],
            'known_findings_reported': known_lines,
        },
        'assumptions': list(getattr(module, 'ASSUMPTIONS', [])),
        'wall_s': round(wall, 2),
        'violations': len(out_paths),
    }
    if not args.no_evidence:
        os.makedirs(os.path.join(here, 'evidence'), exist_ok=True)
        with open(os.path.join(here, 'evidence', '%s.json' % prop), 'w') as fh:
            json.dump(evidence, fh, indent=1, default=str)

    for line in known_lines:
        print(line)
    for pname, p in parts.items():
        print('%s/%s: %d cases, %d distinct non-trivial%s, classes=%s' % (
            prop, pname, p['evaluations'], len(p['hashes']) + p['count'],
            ' (exhaustive)' if p['exhaustive'] else '',
            json.dumps(dict(sorted(p['classes'].items())))))
    if out_paths:
        for f, path in out_paths:
            print('  %s/%s: %s' % (f['part'], f['bucket'], f['message'][:1500]))
            print('VIOLATION property=%s replay=%s' % (prop, os.path.relpath(path, here)))
        return 1
    if floor_errors:
        for e in floor_errors:
            print('harness error: generator floor not met: ' + e)
        return 2
    if distinct_nt < 2:
        print('harness error: fewer than 2 distinct non-trivial cases')
        return 2
    print('OK property=%s tier=%s seed=%d evaluations=%d distinct_nontrivial=%d wall=%.1fs' % (
        prop, args.tier, seed, evaluations, distinct_nt, wall))
    return 0


def do_replay(core, module, prop, path):
    with open(path) as fh:
        rec = json.load(fh)
    if hasattr(module, 'preload'):
        module.preload()
    try:
        viol = core.replay_case(module, rec['part'], rec['case'])
    except core.HarnessError as exc:
        print('harness error: %s' % exc)
        return 2
    if viol is None:
        print('replay %s: property holds on this case' % path)
        return 0
    print('  %s/%s: %s' % (rec['part'], viol.bucket, viol.message))
    if viol.detail:
        print(viol.detail)
    print('VIOLATION property=%s replay=%s' % (prop, path))
    return 1


if __name__ == '__main__':
    sys.exit(main())
